#!/bin/bash
# rebuilds mutation/TRIAGE.md = hand-written triage + current numbers
cd "$(dirname "$0")/.." && { cat mutation/TRIAGE.head.md; tools/mutation_summary.py; } > mutation/TRIAGE.md
