#!/venv/bin/python
"""Run seeded property-breaking changes against the checks.

usage: tools/run_seeded.py [--tier quick] [--all-checks] [ids...]
For every /verif/seeded/<id>/ (patch.diff, demo.py, meta.json) a scratch copy of /repo is
made under /tmp, the patch applied there, then: the repository's own test-suite, the
demonstration with and without the patch, and the check(s) of the property it breaks
(VERIF_REPO=<scratch>). Results are written back into meta.json ("last_run") and a
table into seeded/README.md. /repo itself is never touched.
"""
import json, os, re, shutil, subprocess, sys, tempfile, time

HERE = os.path.dirname(os.path.dirname(os.path.abspath(__file__)))
SEEDED = os.path.join(HERE, "seeded")
ALL = [f"C{i:02d}" for i in range(1, 21)]


def sh(cmd, cwd=None, env=None, timeout=1500):
    e = dict(os.environ)
    e.update(env or {})
    # own session: on a timeout only this command's process group is killed (never another run's checks)
    import signal
    p = subprocess.Popen(cmd, shell=True, cwd=cwd, env=e, stdout=subprocess.PIPE, stderr=subprocess.STDOUT, text=True, start_new_session=True)
    try:
        out, _ = p.communicate(timeout=timeout)
    except subprocess.TimeoutExpired:
        try:
            os.killpg(p.pid, signal.SIGKILL)
        except ProcessLookupError:
            pass
        p.communicate()
        return 124, "TIMEOUT"
    return p.returncode, out


def main():
    args = [a for a in sys.argv[1:] if not a.startswith("--")]
    tier = "quick"
    if "--tier" in sys.argv:
        tier = sys.argv[sys.argv.index("--tier") + 1]
        args = [a for a in args if a != tier]
    all_checks = "--all-checks" in sys.argv
    ids = args or sorted(d for d in os.listdir(SEEDED) if os.path.isdir(os.path.join(SEEDED, d)))
    rows = []
    for sid in ids:
        d = os.path.join(SEEDED, sid)
        meta = json.load(open(os.path.join(d, "meta.json")))
        scratch = tempfile.mkdtemp(prefix="vseed.", dir="/tmp")
        try:
            sh(f"rsync -a --exclude .git --exclude __pycache__ /repo/ {scratch}/")
            clean = tempfile.mkdtemp(prefix="vseedc.", dir="/tmp")
            sh(f"rsync -a --exclude .git --exclude __pycache__ /repo/ {clean}/")
            rc, out = sh(f"patch -p1 -s < {d}/patch.diff", cwd=scratch)
            if rc != 0:
                rows.append((sid, meta["property"], "PATCH DOES NOT APPLY", "", "", ""))
                continue
            _, tout = sh(f"{HERE}/tools/repo_tests.sh {scratch}")
            tests = tout.strip().splitlines()[-1] if tout.strip() else "?"
            demo = os.path.join(d, "demo.py")
            r_with, _ = sh(f"/venv/bin/python {demo}", cwd=scratch, env={"PYTHONPATH": scratch}, timeout=300)
            r_without, _ = sh(f"/venv/bin/python {demo}", cwd=clean, env={"PYTHONPATH": clean}, timeout=300)
            shutil.rmtree(clean, ignore_errors=True)
            checks = ALL if all_checks else [meta["property"]] + meta.get("also_check", [])
            res = {}
            for pid in checks:
                t0 = time.time()
                rc, out = sh(f"/venv/bin/python -m mc.run --property {pid} --tier {tier}", cwd=HERE,
                             env={"VERIF_REPO": scratch, "VERIF_EVIDENCE_DIR": os.path.join(scratch, ".evidence")})
                keys = []
                for line in out.splitlines():
                    m = re.match(r"VIOLATION property=(\S+) replay=\S+/([^/]+)\.json", line)
                    if m:
                        keys.append(m.group(2))
                res[pid] = {"exit": rc, "violations": keys, "wall_s": round(time.time() - t0, 1)}
            caught = sorted(p for p, r in res.items() if r["exit"] == 1 and r["violations"])
            meta["last_run"] = {"tier": tier, "repo_tests_with_patch": tests, "demo_exit_with_patch": r_with,
                                "demo_exit_without_patch": r_without, "checks": res, "caught_by": caught}
            json.dump(meta, open(os.path.join(d, "meta.json"), "w"), indent=1)
            rows.append((sid, meta["property"], tests, f"{r_with}/{r_without}", ", ".join(caught) or "MISSED",
                         "; ".join(f"{p}: {', '.join(r['violations'][:3])}" for p, r in res.items() if r["violations"])))
            print(rows[-1], flush=True)
        finally:
            shutil.rmtree(scratch, ignore_errors=True)
    # README table over all seeded dirs
    lines = ["# Seeded property-breaking changes", "",
             "Written by independent sub-agents that saw only the property text (see DESIGN.md section 6). Each was confirmed in a scratch copy:",
             "the repository's tests still pass with it, its demonstration fails with it and passes without it. `tools/run_seeded.py` re-runs all of this.", "",
             "| id | property | needs | repo tests with patch | demo exit with/without | caught by (quick) | violation keys |", "|---|---|---|---|---|---|---|"]
    for sid in sorted(d for d in os.listdir(SEEDED) if os.path.isdir(os.path.join(SEEDED, d))):
        m = json.load(open(os.path.join(SEEDED, sid, "meta.json")))
        lr = m.get("last_run", {})
        keys = "; ".join(f"{p}: {', '.join(r['violations'][:3])}" for p, r in lr.get("checks", {}).items() if r["violations"])
        lines.append(f"| {sid} | {m['property']} | {m.get('needs','')} | {lr.get('repo_tests_with_patch','')} | {lr.get('demo_exit_with_patch','')}/{lr.get('demo_exit_without_patch','')} | {', '.join(lr.get('caught_by', [])) or 'MISSED'} | {keys} |")
    open(os.path.join(SEEDED, "README.md"), "w").write("\n".join(lines) + "\n")


main()
