#!/bin/bash
# imp3.sh <PID> <A|B> <seed-id> <needs> <description> : import wave-3 deliverable X from /tmp/w3_<PID>
SEED_WT=/tmp/w3_$1 SEED_PATCH=patch$2.diff SEED_DEMO=demo$2.py /verif/tools/import_seed.py "$1" "$3" "$4" "$5"
