#!/venv/bin/python
"""import_seed.py <PID> <seed-id> <needs text> [<description>] : copy patch.diff + demo.py from /tmp/wt_<PID> into /verif/seeded/<seed-id>/."""
import json, os, shutil, subprocess, sys
pid, sid, needs = sys.argv[1:4]
desc = sys.argv[4] if len(sys.argv) > 4 else ""
wt = os.environ.get("SEED_WT") or f"/tmp/wt_{pid}"
d = f"/verif/seeded/{sid}"
os.makedirs(d, exist_ok=True)
pf = os.environ.get("SEED_PATCH")
if pf:
    diff = open(f"{wt}/{pf}").read()
else:
    diff = subprocess.run("git diff -- taskiq", shell=True, cwd=wt, capture_output=True, text=True).stdout
    if not diff.strip():
        diff = open(f"{wt}/patch.diff").read()
open(f"{d}/patch.diff", "w").write(diff)
shutil.copy(f"{wt}/" + os.environ.get("SEED_DEMO", "demo.py"), f"{d}/demo.py")
meta = {"id": sid, "property": pid, "origin": "independent sub-agent given only the property text and a scratch worktree",
        "description": desc, "needs": needs}
json.dump(meta, open(f"{d}/meta.json", "w"), indent=1)
print("imported", sid, len(diff.splitlines()), "diff lines")
