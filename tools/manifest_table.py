E1N = "explicit-state exploration of the implementation under a controlled event loop"
E3I = "bounded-exhaustive input enumeration vs reference model"
E1T = "Explicit-state exploration of the real Receiver.listen()/callback() coroutines on a hand-stepped asyncio loop: from every quiescent state every enabled external event (broker delivery, task-body completion, save/ack/hook/dependency completion, stop request, earliest timer; plus pairs of events injected into the same loop iteration up to the stated deviation level) is fired, states are matched on a fingerprint of the live coroutine frames + semaphores/queue + environment + monitor state, and safety oracles run at every observable event. "
E1NOTE = "Trusted: CPython's asyncio Task/Future/Queue/Semaphore and anyio (executed unmodified on the stepped loop); the fingerprint abstraction (guarded by menu-equality on revisits and a stateless cross-check in the thorough tier); scripted broker/backend/executor stand for the environment. Bounds are small scopes (messages, A, P, N, deviation level) listed in the evidence."
TABLE = {
    "C01": ("E1", E1N,
            E1T + "For C01: all (A,P,N,stream) configurations in the bound x message lists over {valid, raising, malformed, unknown}; oracle: each taken valid message starts exactly once, junk never starts, nothing taken is left unexecuted at return.",
            E1NOTE, "DESIGN.md 2.1, 3/C01"),
    "C14": ("E3", E3I,
            "Every (now, T, spelling) of a stated grid (all seconds of the minute, boundary microseconds, T within -3..+63 s of now / the minute boundary / +-1,2 days, 8 zone spellings) is evaluated with the real get_task_delay under a scripted clock and judged by the property's three-way case split. Exhaustive over that grid, nothing sampled; the right level because the property is a pure function of (now, T) whose failure modes sit at second/minute boundaries.",
            "Trusted: the scripted replacement of run.datetime; Python datetime arithmetic used by the oracle. Instants outside the grid are not covered (small-scope).",
            "DESIGN.md 3/C14"),
}
_PENDING = "check not built yet in this round (design in DESIGN.md section 3); will be claimed once its driver is committed"
NOT_YET = {f"C{i:02d}": _PENDING for i in range(1, 21)}
