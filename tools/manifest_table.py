E1N = "explicit-state exploration of the implementation under a controlled event loop"
E3I = "bounded-exhaustive input enumeration vs reference model"
TABLE = {
    "C14": ("E3", E3I,
            "Every (now, T, spelling) of a stated grid (all seconds of the minute, boundary microseconds, T within -3..+63 s of now / the minute boundary / +-1,2 days, 8 zone spellings) is evaluated with the real get_task_delay under a scripted clock and judged by the property's three-way case split. Exhaustive over that grid, nothing sampled; the right level because the property is a pure function of (now, T) whose failure modes sit at second/minute boundaries.",
            "Trusted: the scripted replacement of run.datetime; Python datetime arithmetic used by the oracle. Instants outside the grid are not covered (small-scope).",
            "DESIGN.md 3/C14"),
}
_PENDING = "check not built yet in this round (design in DESIGN.md section 3); will be claimed once its driver is committed"
NOT_YET = {f"C{i:02d}": _PENDING for i in range(1, 21)}
