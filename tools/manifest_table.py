E1N = "explicit-state exploration of the implementation under a controlled event loop"
E3I = "bounded-exhaustive input enumeration vs reference model"
E1T = "Explicit-state exploration of the real Receiver.listen()/callback() coroutines on a hand-stepped asyncio loop: from every quiescent state every enabled external event (broker delivery, task-body completion, save/ack/hook/dependency completion, stop request, earliest timer; plus pairs of events injected into the same loop iteration up to the stated deviation level) is fired, states are matched on a fingerprint of the live coroutine frames + semaphores/queue + environment + monitor state, and safety oracles run at every observable event. "
E1NOTE = "Trusted: CPython's asyncio Task/Future/Queue/Semaphore and anyio (executed unmodified on the stepped loop); the fingerprint abstraction (guarded by menu-equality on revisits and a stateless cross-check in the thorough tier); scripted broker/backend/executor stand for the environment. Bounds are small scopes (messages, A, P, N, deviation level) listed in the evidence."
TABLE = {
    "C01": ("E1", E1N,
            E1T + "For C01: all (A,P,N,stream) configurations in the bound x message lists over {valid, raising, malformed, unknown}; oracle: each taken valid message starts exactly once, junk never starts, nothing taken is left unexecuted at return.",
            E1NOTE, "DESIGN.md 2.1, 3/C01"),
    "C02": ("E1", E1N,
            E1T + "For C02: ack type x ack flavour x outcome for one message and all pairs processed concurrently; the oracle runs at every ack call, i.e. on every prefix of every explored trace (each prefix is what a crash after that event leaves behind): at most one ack, never before the configured point; exactly one when processing finishes.",
            E1NOTE, "DESIGN.md 2.1, 3/C02"),
    "C03": ("E1", E1N,
            E1T + "For C03: (a) A+2 gated messages, invariant #in-processing <= A at every event, order for A=1; (b) every history of <=2 (quick) / <=3 (thorough) outcomes from a 14-letter alphabet (incl. failing hooks, backend failure, raising ack) followed by a saturation probe of A+1 never-ending messages: exactly A must run.",
            E1NOTE, "DESIGN.md 2.1, 3/C03"),
    "C04": ("E1", E1N,
            E1T + "For C04: backlog scenarios with n=A+P+3 messages over the (A,P) grid; invariant #taken-#finished <= A+P+1 at every TAKEN event; non-vacuity: the maximum observed equals A+P+1 in every configuration (else the run fails as vacuous).",
            E1NOTE, "DESIGN.md 2.1, 3/C04"),
    "C05": ("E1", E1N,
            E1T + "For C05: (A,P,N,W) x stream x short/never-ending/slow-ack messages with the stop request enabled in every state; oracles on the virtual clock: <=1 message taken after stop, <=N with max_tasks, no return with unfinished work unless W elapsed, return within one 0.3 s poll after the last finish (within 0.3 s+W with W), no illegal stuck state. One known finding (D2) is classified by a predicate on the failing state.",
            E1NOTE, "DESIGN.md 2.1, 3/C05"),
    "C06": ("E1", E1N,
            E1T + "For C06: 2-3 concurrent messages of a task whose dependency graph contains an async gated dependency and a probe from 72 graph shapes (sync/async/generator/async-generator x cached/un-cached x reading Context itself or through a nested child); every Context observation and every set_result is compared with the identity of the message whose callback task performs it.",
            E1NOTE, "DESIGN.md 2.1, 3/C06"),
    "C07": ("E1", E1N,
            E1T + "For C07: flavour x outcome (8 return values, 9 exception classes incl. BaseException subclasses, no-result, timeout labels racing completion in both orders and simultaneously) x labels, and 2-3 message sequences with the backend failing on every subset of saves; oracle at end of processing: number of set_result calls and stored is_err/value/error class/args/labels equal the scripted outcome; later messages still complete.",
            E1NOTE, "DESIGN.md 2.1, 3/C07"),
    "C10": ("E1", E1N,
            E1T + "For C10: every middleware stack in the bound x outcome through the real listen()/callback(), per-message projected log compared with the reference hook sequence; 2 messages x gated hooks for all interleavings; client side: every stack over {pre_send, post_send} x sync/async x replacing x kick ok/raise through the real AsyncKicker.kiq (bounded-exhaustive enumeration).",
            E1NOTE, "DESIGN.md 2.1, 3/C10"),
    "C12": ("E1", E1N,
            E1T + "For C12: 9 dependency-graph shapes x assignments of the five teardown styles x outcome (success, raise, timeout, no-result, resolution failure at each node) x propagate x ack type, plus un-cached variants and two concurrent messages with gated async dependencies; oracle: one CLOSE per OPEN, reverse order, after the task and before SAVE/ACK, exception propagated iff enabled. One known finding (D7, in the pinned taskiq_dependencies) classified by a predicate.",
            E1NOTE, "DESIGN.md 2.1, 3/C12"),
    "C14": ("E3", E3I,
            "Every (now, T, spelling) of a stated grid (all seconds of the minute, boundary microseconds, T within -3..+63 s of now / the minute boundary / +-1,2 days, 8 zone spellings) is evaluated with the real get_task_delay under a scripted clock and judged by the property's three-way case split. Exhaustive over that grid, nothing sampled; the right level because the property is a pure function of (now, T) whose failure modes sit at second/minute boundaries.",
            "Trusted: the scripted replacement of run.datetime; Python datetime arithmetic used by the oracle. Instants outside the grid are not covered (small-scope).",
            "DESIGN.md 3/C14"),
}
_PENDING = "check not built yet in this round (design in DESIGN.md section 3); will be claimed once its driver is committed"
TABLE["C15"] = ("E1", E1N,
    "Explicit-state exploration of the real run_scheduler_loop() on a hand-stepped asyncio loop whose virtual clock is also the wall clock (run.datetime patched): start instants x schedule sets x sources (scripted list sources and the real LabelScheduleSource) x send latencies x dynamic add/remove x every subset of <=2 failing get_schedules()/kick() calls; the explorer enumerates every order of equal-deadline timers (and both in one iteration); oracle on the event log at the horizon: polls exactly at start and every minute boundary, one send per matching cron minute (independent matcher), one send per one-shot within [T, T+1 s]. One known finding (D8) classified by a predicate on the log.",
    "Trusted: asyncio on the stepped loop; timers fire exactly at their deadline and wall clock == loop clock (drift and early wake-ups are out of scope); local zone UTC; horizon 3/5 virtual minutes.",
    "DESIGN.md 2.1, 3/C15")
E2N = "explicit-state BFS to fixpoint over event histories of the implementation on a fake OS"
E2NOTE = "Trusted: the fake OS (Process/Queue/Event/os.kill/signal/sleep replaced in the module namespace, Linux reaping semantics), the origin tagging of queued actions by call stack; one manager, 1-3 workers; deviations bounded; the 'long random histories' part of the quantifier is sampling and is not performed."
TABLE["C17"] = ("E2", E2N,
    "All tick histories (per tick: any subset of workers dies, one of SIGHUP/SIGINT/SIGTERM/file-change, any subset of restarted workers crashes at start; bounded deviations: signal between drain and scan, Queue.empty() lag) of the real ProcessManager.start() for workers 1..3 x max_fails {-1,0,1,2,3}, breadth-first with de-duplication on the canonical tick-boundary state until no new state appears; monitor: never two live processes per slot, old occupant joined before its replacement starts, slot set constant, dead workers replaced within two ticks.",
    E2NOTE, "DESIGN.md 2.2, 3/C17-C18")
TABLE["C18"] = ("E2", E2N,
    "Same exploration as C17; reference monitor (counter of dequeued failure-origin restarts, per-tick restart set): -1 exactly when the counter reaches max_fails>=1, reload-all restarts each slot exactly once in the tick that handles it without touching the counter, shutdown signals every live current worker exactly once and nothing else, no start afterwards, status None, start() never raises.",
    E2NOTE, "DESIGN.md 2.2, 3/C17-C18")
E3G = "explicit-state enumeration of operation/attempt histories of the real API vs reference model"
E3NOTE = "Small-scope claim: every member of the stated finite grammar is run through the real public entry points and compared with a reference model that shares no code with taskiq; nothing outside the grammar is covered and no interleavings are involved."
TABLE["C08"] = ("E3", E3I,
    "Every generated task signature (<=3/4 positional-or-keyword parameters over un-annotated/Any/int/str/model/dataclass + defaulted/dependency/Context kinds, optional keyword-only tail) x every positional/keyword split x 6 value schemes x validate on/off x JSON/pickle goes kiq -> bytes -> Receiver.callback; the function records what it got; reference = inspect.Signature.bind_partial + TypeAdapter. Plus loads(dumps(m)) == m for every built message and importable formatter.",
    E3NOTE + " ORJSON/MsgPack/CBOR are not importable here.", "DESIGN.md 2.3, 3/C08")
TABLE["C09"] = ("E3", E3G,
    "(a) every label dict of <=2 entries over a 23-value alphabet of the five primitive types, set on task or kicker, JSON and pickle, observed in middleware/Context/stored result on first delivery and after every sequence of <=2/3 retry/requeue steps through the real closed loop; (b) BFS over kicker operation sequences (depth 3/4, ordinary and shared task) with the reference 'declared + own overrides'.",
    E3NOTE, "DESIGN.md 2.3, 3/C09")
TABLE["C11"] = ("E3", E3G,
    "Closed loop kiq -> bytes -> Receiver.callback with the real SimpleRetryMiddleware for every attempt-outcome sequence up to 8 attempts x max_retries 0..6 (int label / str label / default) x retry_on_error (bool/str label, defaults) x no_result_on_retry x user labels; reference: executions = min(first non-fail, max(1, max_retries)), identity and labels per attempt, stored-result count and content.",
    E3NOTE, "DESIGN.md 2.3, 3/C11")
TABLE["C13"] = ("E3", E3I,
    "get_task_delay under a scripted clock for every minute of the listed days (DST transition days of three zones, year/leap boundaries) x offsets (none, 'UTC', six timedeltas, eight IANA zones incl. 30/45-minute ones): the exact expression of the expected local minute must be due, every single-field neighbour must not, the dom/dow either-rule pair, and 14 grammar expressions against an independent matcher on zoneinfo time.",
    E3NOTE + " zoneinfo (system tzdata) is the reference for offsets; instants where it disagrees with pytz are excluded and counted; random instants are sampling and not performed.", "DESIGN.md 2.3, 3/C13")
TABLE["C16"] = ("E3", E3G,
    "(A) TaskiqScheduler.on_ready for every schedule payload x source callback flavour x cancel x kick failure against the reference callback sequence and decoded payload; (B) explicit-state BFS over every firing order of the real LabelScheduleSource for every task set in the bound (own + foreign broker tasks, entries over cron/time/duplicate/invalid), reference = list model.",
    E3NOTE, "DESIGN.md 2.3, 3/C16")
TABLE["C19"] = ("E3", E3I,
    "Every exception over 13 class kinds x args of arity <=2 over 21 value kinds, 14 special instances, every linear chain to depth 4/6 with per-edge link kind and every back edge, tree shapes with both links, falsy classes in every chain position; each through JSON-text, JSON-dict, python-dict and pickle round trips of TaskiqResult; oracle: totality, class/args when resolvable+reconstructible+representable else an allowed stand-in, JSON chain structure equals the unfolding with back-edges cut. One known finding (D10) classified by input predicate.",
    E3NOTE, "DESIGN.md 2.3, 3/C19")
TABLE["C20"] = ("E3", E3I,
    "Every (module, dotted type) over a planted module tree with recording traps + harmless real callables x args x 5 placements (top, cause, context, two levels deep) x 3 loaders (exception_to_python, model_validate, model_validate_json); monitors: trap call log, sys.meta_path recorder, sys.modules diff; oracle: exception or SecurityError/ValidationError, no non-exception call, no import, unresolved -> synthetic class.",
    E3NOTE + " Attribute hooks that run on plain getattr (module __getattr__, descriptors) are not planted.", "DESIGN.md 2.3, 3/C20")
NOT_YET = {f"C{i:02d}": _PENDING for i in range(1, 21)}
