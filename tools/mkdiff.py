#!/venv/bin/python
"""mkdiff.py out.diff file old new [file old new ...] : make a patch from exact string replacements in /repo files."""
import difflib, sys
out = sys.argv[1]
args = sys.argv[2:]
chunks = []
by_file = {}
for k in range(0, len(args), 3):
    f, old, new = args[k:k+3]
    src = by_file.get(f) or open('/repo/' + f).read()
    assert src.count(old) == 1, (f, 'occurrences', src.count(old))
    by_file[f] = src.replace(old, new)
for f, new_src in by_file.items():
    a = open('/repo/' + f).read().splitlines(keepends=True)
    b = new_src.splitlines(keepends=True)
    chunks.append(''.join(difflib.unified_diff(a, b, 'a/' + f, 'b/' + f)))
open(out, 'w').write(''.join(chunks))
print(''.join(chunks))
