#!/bin/bash
# validates MANIFEST.json and every evidence file against the schemas
python3-vt - <<'P'
import json, jsonschema, glob
jsonschema.validate(json.load(open('/verif/MANIFEST.json')), json.load(open('/root/.vp/MANIFEST.schema.json')))
s=json.load(open('/root/.vp/EVIDENCE.schema.json'))
bad=0
for f in sorted(glob.glob('/verif/evidence/*.json')):
    e=json.load(open(f))
    try: jsonschema.validate(e, s)
    except Exception as x: print('INVALID', f, str(x)[:200]); bad+=1
    if not e['coverage'].get('samples'): print('NO SAMPLES', f); bad+=1
man=json.load(open('/verif/MANIFEST.json'))
print('manifest ok;', len(man['checks']), 'checks;', len(man.get('not_applicable',[])), 'n/a;', 'evidence problems:', bad)
P
