#!/venv/bin/python
"""try_family.py <PID> [key=value ...]: run the fault-overlap family through property PID's world (debug aid)."""
import importlib, json, os, sys, time
sys.path.insert(0, "/verif")
os.environ.setdefault("PYTHONHASHSEED", "0")
from mc.common import Acc, setup_repo_path
setup_repo_path()
import logging; logging.disable(logging.CRITICAL)
from mc import fault_overlap
from mc.recv_driver import run_scenarios
pid = sys.argv[1]
kw = {}
for a in sys.argv[2:]:
    k, v = a.split("=", 1)
    kw[k] = eval(v)
mod = importlib.import_module(f"mc.props.{pid.lower()}")
W = [getattr(mod, n) for n in dir(mod) if n.endswith("World") and n.startswith(pid)][0]
scs = fault_overlap.family("quick", **kw)
t0 = time.time()
tot = 0
for sc in scs:
    acc = run_scenarios(pid, [sc], W)
    d = acc.as_dict()
    tot += d["states"]
    v = {k: m["message"][:300] for k, m in acc.violations.items()}
    print(sc["fault"], sc.get("ack_type"), "states", d["states"], "caps", d.get("caps"), "viol", json.dumps(v)[:700] if v else "")
print("total states", tot, "scenarios", len(scs), "wall", round(time.time() - t0, 1))
