#!/venv/bin/python
"""Summarise /verif/mutation/*.jsonl: per file the mutants killed by the repository's tests, caught by a check,
surviving; prints the survivors."""
import glob, json, os, sys
HERE = os.path.dirname(os.path.dirname(os.path.abspath(__file__)))
tot = {"n": 0, "tests": 0, "caught": 0, "survived": 0, "hp": 0}
rows = []
surv = []
for f in sorted(glob.glob(os.path.join(HERE, "mutation", "*.jsonl"))):
    recs = {}
    for l in open(f):
        r = json.loads(l)
        recs[r["id"]] = r  # later lines (re-runs) win
    n = len(recs)
    t = sum(1 for r in recs.values() if r["tests"] == "fail")
    c = sum(1 for r in recs.values() if r["tests"] == "pass" and r["caught_by"])
    s = [r for r in recs.values() if r["tests"] == "pass" and not r["caught_by"]]
    hp = sum(1 for r in s if r.get("harness_problem"))
    rows.append((os.path.basename(f)[:-6].replace("__", "/"), n, t, c, len(s), hp))
    surv += s
    for k, v in (("n", n), ("tests", t), ("caught", c), ("survived", len(s)), ("hp", hp)):
        tot[k] += v
print("| file | mutants | killed by the repo's tests | pass tests, caught by a check | survive | of which harness-problem exits |")
print("|---|---|---|---|---|---|")
for r in rows:
    print("| " + " | ".join(map(str, r)) + " |")
print(f"| **total** | {tot['n']} | {tot['tests']} | {tot['caught']} | {tot['survived']} | {tot['hp']} |")
if "--survivors" in sys.argv:
    print()
    for r in surv:
        print(r["id"], "|", r["before"].replace("\n", " ")[:110], "=>", r["after"].replace("\n", " ")[:60], "|", r.get("harness_problem") or "")
