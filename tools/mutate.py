#!/venv/bin/python
"""First-order mutants of one source file of /repo, run against the repository's tests and the checks.

usage: tools/mutate.py <path relative to /repo> <PID,PID,...> [--limit N] [--only OPNAME] [--procs N]

For every mutation point (see OPERATORS) a scratch copy of /repo outside /repo and /verif gets the
mutated file; then (1) the repository's own test-suite runs - a mutant it kills is of no interest here;
(2) the named checks run in the given order (quick tier, VERIF_REPO=<scratch>) until one reports a
violation. One JSON line per mutant goes to /verif/mutation/<file>.jsonl:
  {"id", "line", "op", "before", "after", "tests": "pass|fail", "caught_by": PID|null, "keys": [...],
   "checked": [...], "harness_problem": [...]}
A mutant that passes the tests and every named check is a survivor; survivors are triaged by hand
(equivalent mutant / outside the listed properties / hole in a check) in mutation/TRIAGE.md.
/repo itself is never touched.
"""
import ast
import copy
import json
import os
import re
import shutil
import subprocess
import sys
import tempfile
import time

HERE = os.path.dirname(os.path.dirname(os.path.abspath(__file__)))
CMP = {ast.Lt: ast.LtE, ast.LtE: ast.Lt, ast.Gt: ast.GtE, ast.GtE: ast.Gt, ast.Eq: ast.NotEq, ast.NotEq: ast.Eq,
       ast.Is: ast.IsNot, ast.IsNot: ast.Is, ast.In: ast.NotIn, ast.NotIn: ast.In}


def is_logging(node: ast.AST) -> bool:
    """logger.x(...) / logging.x(...) / warnings.warn(...) calls: not behaviour the properties speak about."""
    if isinstance(node, ast.Expr):
        node = node.value
    if isinstance(node, ast.Await):
        node = node.value
    if isinstance(node, ast.Call):
        f = node.func
        if isinstance(f, ast.Attribute) and isinstance(f.value, ast.Name) and f.value.id in ("logger", "logging", "warnings", "log"):
            return True
    return False


class Collector(ast.NodeVisitor):
    """Enumerates mutation points as (description, function(tree_copy_node) -> None) keyed by a path."""

    def __init__(self) -> None:
        self.points = []  # (lineno, op, path)
        self.path = []
        self.in_logging = 0
        self.in_annotation = 0

    def generic_visit(self, node: ast.AST) -> None:
        if is_logging(node):
            return
        if isinstance(node, ast.Expr) and isinstance(node.value, ast.Constant) and isinstance(node.value.value, str):
            return  # docstring
        self.consider(node)
        for field, value in ast.iter_fields(node):
            if field in ("annotation", "returns", "decorator_list"):
                continue
            if isinstance(value, list):
                for i, item in enumerate(value):
                    if isinstance(item, ast.AST):
                        self.path.append((field, i))
                        self.generic_visit(item)
                        self.path.pop()
            elif isinstance(value, ast.AST):
                self.path.append((field, None))
                self.generic_visit(value)
                self.path.pop()

    def add(self, node: ast.AST, op: str) -> None:
        self.points.append((getattr(node, "lineno", 0), op, list(self.path)))

    def consider(self, node: ast.AST) -> None:
        if isinstance(node, ast.Compare):
            for i, o in enumerate(node.ops):
                if type(o) in CMP:
                    self.add(node, f"cmp{i}")
        elif isinstance(node, ast.BoolOp):
            self.add(node, "boolop")
        elif isinstance(node, ast.UnaryOp) and isinstance(node.op, ast.Not):
            self.add(node, "drop-not")
        elif isinstance(node, (ast.If, ast.IfExp)) :
            self.add(node, "negate-test")
        elif isinstance(node, ast.While) and not (isinstance(node.test, ast.Constant) and node.test.value is True):
            self.add(node, "negate-test")
        elif isinstance(node, ast.Constant):
            if isinstance(node.value, bool):
                self.add(node, "flip-bool")
            elif isinstance(node.value, int):
                self.add(node, "int+1")
                if node.value != 0:
                    self.add(node, "int-1")
            elif isinstance(node.value, float):
                self.add(node, "float*2")
        elif isinstance(node, ast.AugAssign) and isinstance(node.op, (ast.Add, ast.Sub)):
            self.add(node, "augassign-flip")
            self.add(node, "delete-stmt")
        elif isinstance(node, ast.Expr) and isinstance(node.value, (ast.Call, ast.Await)):
            self.add(node, "delete-stmt")
        elif isinstance(node, ast.Assign):
            self.add(node, "delete-stmt")
        elif isinstance(node, ast.Break):
            self.add(node, "break->continue")
        elif isinstance(node, ast.Continue):
            self.add(node, "continue->break")
        elif isinstance(node, ast.Return) and node.value is not None and not (isinstance(node.value, ast.Constant) and node.value.value is None):
            self.add(node, "return-none")
        elif isinstance(node, ast.Raise):
            self.add(node, "delete-stmt")
        elif isinstance(node, ast.BinOp) and isinstance(node.op, (ast.Add, ast.Sub)):
            self.add(node, "binop-flip")


def resolve(tree: ast.AST, path):
    parent, key = None, None
    node = tree
    for field, idx in path:
        parent, key = node, (field, idx)
        node = getattr(node, field)
        if idx is not None:
            node = node[idx]
    return parent, key, node


def replace(parent, key, new) -> None:
    field, idx = key
    if idx is None:
        setattr(parent, field, new)
    else:
        getattr(parent, field)[idx] = new


def apply(tree: ast.AST, op: str, path) -> bool:
    parent, key, node = resolve(tree, path)
    if op.startswith("cmp"):
        i = int(op[3:])
        node.ops[i] = CMP[type(node.ops[i])]()
    elif op == "boolop":
        node.op = ast.Or() if isinstance(node.op, ast.And) else ast.And()
    elif op == "drop-not":
        replace(parent, key, node.operand)
    elif op == "negate-test":
        node.test = ast.UnaryOp(op=ast.Not(), operand=node.test)
    elif op == "flip-bool":
        node.value = not node.value
    elif op == "int+1":
        node.value = node.value + 1
    elif op == "int-1":
        node.value = node.value - 1
    elif op == "float*2":
        node.value = node.value * 2 if node.value else 1.0
    elif op == "augassign-flip":
        node.op = ast.Sub() if isinstance(node.op, ast.Add) else ast.Add()
    elif op == "binop-flip":
        node.op = ast.Sub() if isinstance(node.op, ast.Add) else ast.Add()
    elif op == "delete-stmt":
        replace(parent, key, ast.Pass())
    elif op == "break->continue":
        replace(parent, key, ast.Continue())
    elif op == "continue->break":
        replace(parent, key, ast.Break())
    elif op == "return-none":
        node.value = ast.Constant(value=None)
    else:
        return False
    return True


def sh(cmd, cwd=None, env=None, timeout=900):
    import signal

    e = dict(os.environ)
    e.update(env or {})
    p = subprocess.Popen(cmd, shell=True, cwd=cwd, env=e, stdout=subprocess.PIPE, stderr=subprocess.STDOUT, text=True, start_new_session=True)
    try:
        out, _ = p.communicate(timeout=timeout)
    except subprocess.TimeoutExpired:
        try:
            os.killpg(p.pid, signal.SIGKILL)
        except ProcessLookupError:
            pass
        p.communicate()
        return 124, "TIMEOUT"
    return p.returncode, out


def main() -> None:
    args = [a for a in sys.argv[1:] if not a.startswith("--")]
    rel, pids = args[0], args[1].split(",")
    limit = int(sys.argv[sys.argv.index("--limit") + 1]) if "--limit" in sys.argv else None
    only = sys.argv[sys.argv.index("--only") + 1] if "--only" in sys.argv else None
    procs = sys.argv[sys.argv.index("--procs") + 1] if "--procs" in sys.argv else "16"
    start = int(sys.argv[sys.argv.index("--start") + 1]) if "--start" in sys.argv else 0
    src = open(os.path.join("/repo", rel)).read()
    tree = ast.parse(src)
    col = Collector()
    col.generic_visit(tree)
    points = col.points
    if only:
        points = [p for p in points if p[1].startswith(only)]
    outdir = os.path.join(HERE, "mutation")
    os.makedirs(outdir, exist_ok=True)
    outfile = os.path.join(outdir, rel.replace("/", "__") + ".jsonl")
    done = set()
    if os.path.exists(outfile):
        for line in open(outfile):
            done.add(json.loads(line)["id"])
    scratch = tempfile.mkdtemp(prefix="vmut.", dir="/tmp")
    sh(f"rsync -a --exclude .git --exclude __pycache__ /repo/ {scratch}/")
    lines = src.splitlines()
    n = 0
    try:
        for k, (lineno, op, path) in enumerate(points):
            if k < start:
                continue
            mid = f"{rel}:{lineno}:{op}:{k}"
            if mid in done:
                continue
            if limit is not None and n >= limit:
                break
            t = copy.deepcopy(tree)
            if not apply(t, op, path):
                continue
            try:
                mutated = ast.unparse(ast.fix_missing_locations(t))
                compile(mutated, rel, "exec")
            except Exception:
                continue
            n += 1
            # what the line looks like after the change (from the unparsed mutant, matched by statement text)
            _, _, node0 = resolve(tree, path)
            _, _, node1 = resolve(t, path[:-1]) if op in ("drop-not", "delete-stmt", "break->continue", "continue->break") else resolve(t, path)
            try:
                before = ast.unparse(node0)[:160]
                after = ast.unparse(node1)[:160] if op not in ("delete-stmt",) else "pass"
            except Exception:
                before, after = lines[lineno - 1].strip()[:160], op
            open(os.path.join(scratch, rel), "w").write(mutated)
            for d, _, fs in os.walk(os.path.join(scratch, os.path.dirname(rel))):
                if d.endswith("__pycache__"):
                    shutil.rmtree(d, ignore_errors=True)
            rec = {"id": mid, "line": lineno, "op": op, "before": before, "after": after}
            t0 = time.time()
            _, tout = sh(f"{HERE}/tools/repo_tests.sh {scratch}", timeout=600)
            last = tout.strip().splitlines()[-1] if tout.strip() else "?"
            rec["tests"] = "pass" if re.search(r"\b146 passed\b", last) and "failed" not in last else "fail"
            rec["tests_line"] = last[:120]
            rec["caught_by"] = None
            rec["keys"] = []
            rec["checked"] = []
            rec["harness_problem"] = []
            if rec["tests"] == "pass":
                for pid in pids:
                    rc, out = sh(f"/venv/bin/python -m mc.run --property {pid} --tier quick --procs {procs}", cwd=HERE,
                                 env={"VERIF_REPO": scratch, "VERIF_EVIDENCE_DIR": os.path.join(scratch, ".evidence")}, timeout=1200)
                    rec["checked"].append(pid)
                    keys = re.findall(r"VIOLATION property=\S+ replay=\S+/([^/]+)\.json", out)
                    if rc == 1 and keys:
                        rec["caught_by"] = pid
                        rec["keys"] = keys[:6]
                        break
                    if rc not in (0, 1):
                        rec["harness_problem"].append([pid, rc, (re.findall(r"HARNESS-PROBLEM[^\n]*", out) or [out[-200:]])[0][:200]])
            rec["wall_s"] = round(time.time() - t0, 1)
            with open(outfile, "a") as f:
                f.write(json.dumps(rec) + "\n")
            print(json.dumps({k_: rec[k_] for k_ in ("id", "before", "after", "tests", "caught_by", "keys", "harness_problem", "wall_s")}), flush=True)
    finally:
        shutil.rmtree(scratch, ignore_errors=True)


if __name__ == "__main__":
    main()
