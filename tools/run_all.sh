#!/bin/bash
# usage: tools/run_all.sh quick|thorough  -> runs every check, prints one summary line each
tier=${1:-quick}
for i in $(seq -w 1 20); do
  /usr/bin/time -f "C$i wall=%es" /venv/bin/python -m mc.run --property C$i --tier $tier 2>&1 | grep -E "VIOLATION|HARNESS|^\[|wall=" | cut -c1-260
done
