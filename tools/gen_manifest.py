#!/venv/bin/python
"""Regenerate /verif/MANIFEST.json from the table below (python tools/gen_manifest.py)."""
import json, os, sys
HERE = os.path.dirname(os.path.dirname(os.path.abspath(__file__)))
sys.path.insert(0, HERE)

E1 = "explicit-state exploration of the real asyncio code under a hand-stepped event loop (all orderings of external events, simultaneity deviations bounded)"
E2 = "explicit-state BFS to fixpoint over tick histories of the real ProcessManager.start() on a fake OS"
E3G = "explicit-state BFS over operation sequences of the real API against a reference model"
E3I = "bounded-exhaustive enumeration of every input of a stated finite grammar against a reference model (small-scope end of model checking; no interleavings involved)"

# id -> (engine, technique, text, note, design_ref)
CHECKS = {}

def add(pid, engine, technique, text, note, ref):
    CHECKS[pid] = (engine, technique, text, note, ref)

from tools.manifest_table import TABLE, NOT_YET  # noqa: E402

def main():
    checks = []
    for pid, (engine, technique, text, note, ref) in sorted(TABLE.items()):
        checks.append({
            "property_id": pid,
            "quick_cmd": f"/venv/bin/python -m mc.run --property {pid} --tier quick",
            "thorough_cmd": f"/venv/bin/python -m mc.run --property {pid} --tier thorough",
            "evidence_file": f"/verif/evidence/{pid}.json",
            "replay_cmd_template": "/venv/bin/python -m mc.replay {path}",
            "engine": engine,
            "level_claimed": {"category": "model_checking", "text": text, "design_ref": ref},
            "level_note": note,
            "technique": technique,
        })
    man = {
        "version": 1,
        "setup_cmd": "/venv/bin/python -m compileall -q /verif/mc",
        "hooks": {
            "guard": "TASKIQ_VERIF",
            "enable": "no source hooks are needed: checks import /repo's working tree directly (editable install) and patch module attributes harness-side; TASKIQ_VERIF=1 is exported by the runner for completeness",
            "baseline_off_cmd": "cd /repo && /venv/bin/python -m pytest -ra -q -p no:cacheprovider --timeout=900 --continue-on-collection-errors",
            "source_commits": [],
            "add_only": True,
        },
        "engines": [
            {"name": "E1", "path": "/verif/mc/vloop.py", "kind_free_text": E1,
             "serves_properties": sorted(p for p, v in TABLE.items() if v[0] == "E1")},
            {"name": "E2", "path": "/verif/mc/procworld.py", "kind_free_text": E2,
             "serves_properties": sorted(p for p, v in TABLE.items() if v[0] == "E2")},
            {"name": "E3", "path": "/verif/mc/props", "kind_free_text": E3G + " / " + E3I,
             "serves_properties": sorted(p for p, v in TABLE.items() if v[0] == "E3")},
        ],
        "checks": checks,
        "not_applicable": [{"property_id": p, "reason": r} for p, r in sorted(NOT_YET.items()) if p not in TABLE],
        "notes": "All checks: cwd=/verif, run with /venv/bin/python against /repo's working tree (or $VERIF_REPO). Known findings: /verif/KNOWN_FINDINGS.txt. Design: /verif/DESIGN.md.",
    }
    with open(os.path.join(HERE, "MANIFEST.json"), "w") as f:
        json.dump(man, f, indent=1)
        f.write("\n")
    print("wrote MANIFEST.json with", len(checks), "checks;", len(man["not_applicable"]), "not_applicable")

main()
