#!/bin/bash
# usage: tools/try_patch.sh <patch.diff> <tier> <PID> [PID...]   (env RUN_TESTS=1 to run the repo suite too)
# Copies /repo to a scratch dir outside /repo and /verif, applies the patch there,
# runs the named checks against it (VERIF_REPO), prints verdict lines, deletes the copy.
set -u
patch=$(realpath "$1"); tier=$2; shift 2
scratch=$(mktemp -d /tmp/vrepo.XXXXXX)
trap 'rm -rf "$scratch"' EXIT
rsync -a --exclude .git --exclude __pycache__ --exclude node_modules /repo/ "$scratch/"
( cd "$scratch" && patch -p1 -s < "$patch" ) || { echo "PATCH-FAILED"; exit 3; }
if [ "${RUN_TESTS:-0}" = "1" ]; then
  /verif/tools/repo_tests.sh "$scratch"
fi
cd /verif
for pid in "$@"; do
  out=$(VERIF_REPO="$scratch" VERIF_EVIDENCE_DIR="$scratch/.evidence" /venv/bin/python -m mc.run --property "$pid" --tier "$tier" 2>&1); rc=$?
  echo "== $pid rc=$rc"; echo "$out" | grep -E "VIOLATION|KNOWN-FINDING|HARNESS|^\[" | sed "s#$scratch#<scratch>#g" | head -12
done
