#!/bin/bash
# runs the repository's baseline suite on a tree (default /repo); prints the summary line
d=${1:-/repo}
cd "$d" && PYTHONPATH="$d" /venv/bin/python -m pytest -q -p no:cacheprovider --timeout=900 --continue-on-collection-errors 2>&1 | tail -1
