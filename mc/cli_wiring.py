"""Configuration wiring: command-line values reach the Receiver / ProcessManager unchanged.

The E1/E2 checks drive Receiver and ProcessManager directly; this enumeration closes the gap
to the CLI (taskiq/cli/worker/args.py, run.py): for every value grid point the real
WorkerArgs.from_cli() + start_listen() / run_worker() run with the import machinery, signal
installation and the receiver class replaced by recorders, and the recorded constructor
arguments must equal the command-line values (and the signal handler must set the very event
that listen() was given).
"""
from __future__ import annotations

import itertools
from typing import Any, Dict, List

from mc.common import Acc


def _run_start_listen(argv: List[str]) -> Dict[str, Any]:
    import taskiq.cli.worker.run as wrun
    from taskiq.abc.broker import AsyncBroker
    from taskiq.cli.worker.args import WorkerArgs
    from taskiq.receiver import Receiver

    captured: Dict[str, Any] = {}

    class B(AsyncBroker):
        async def kick(self, message: Any) -> None:
            pass

        async def listen(self):  # pragma: no cover
            yield b""

    broker = B()

    class CapReceiver(Receiver):
        def __init__(self, **kw: Any) -> None:
            captured["kwargs"] = dict(kw)

        async def listen(self, finish_event: Any) -> None:  # type: ignore[override]
            captured["event"] = finish_event

    handlers: Dict[int, Any] = {}

    class FakeSignal:
        SIGINT, SIGTERM, SIGHUP = 2, 15, 1

        @staticmethod
        def signal(num: int, handler: Any) -> None:
            handlers[int(num)] = handler

    def fake_import_object(path: str) -> Any:
        return CapReceiver if path.endswith("Receiver") else broker

    async def fake_shutdown(b: Any, t: float) -> None:
        captured["shutdown_timeout"] = t

    saved = {k: getattr(wrun, k) for k in ("import_object", "import_tasks", "signal", "shutdown_broker", "uvloop")}
    wrun.import_object = fake_import_object  # type: ignore[assignment]
    wrun.import_tasks = lambda *a, **k: None  # type: ignore[assignment]
    wrun.signal = FakeSignal  # type: ignore[assignment]
    wrun.shutdown_broker = fake_shutdown  # type: ignore[assignment]
    wrun.uvloop = None  # type: ignore[assignment]
    try:
        args = WorkerArgs.from_cli(argv)
        args.configure_logging = False
        wrun.start_listen(args)
        captured["args"] = args
        captured["handlers"] = handlers
        ev = captured.get("event")
        if ev is not None and 2 in handlers:
            before = ev.is_set()
            handlers[2](2, None)
            captured["sigint_sets_event"] = (not before) and ev.is_set()
    finally:
        for k, v in saved.items():
            setattr(wrun, k, v)
        import asyncio

        try:
            asyncio.get_event_loop_policy().get_event_loop().close()
        except Exception:
            pass
        asyncio.set_event_loop(None)
    return captured


def check_worker_wiring(prop: str, acc: Acc) -> None:
    from taskiq.acks import AcknowledgeType

    grid = list(itertools.product((1, 2, 7), (0, 1, 3), (None, 1, 5), (None, 0.5, 2.0), (None, "when_received", "when_executed", "when_saved", "WHEN_EXECUTED"), (False, True), (False, True)))
    for gi, (A, P, N, W, ack, no_parse, no_prop) in enumerate(grid):
        argv = ["pkg.mod:broker", "--max-async-tasks", str(A), "--max-prefetch", str(P)]
        # unrelated options vary along the grid: they must not influence what the receiver gets
        extra = [[], ["--max-threadpool-threads", "8"], ["--max-threadpool-threads", "1"], ["--shutdown-timeout", "1"], ["--hardkill-count", "0"]][gi % 5]
        argv += extra
        if N is not None:
            argv += ["--max-tasks-per-child", str(N)]
        if W is not None:
            argv += ["--wait-tasks-timeout", str(W)]
        if ack is not None:
            argv += ["--ack-type", ack]
        if no_parse:
            argv.append("--no-parse")
        if no_prop:
            argv.append("--no-propagate-errors")
        cap = _run_start_listen(argv)
        acc.evaluations += 1
        acc.paths += 1
        acc.count("wiring_cases")
        kw = cap.get("kwargs", {})
        want = {
            "max_async_tasks": A, "max_prefetch": P, "max_tasks_to_execute": N, "wait_tasks_timeout": W,
            "ack_type": AcknowledgeType(ack.lower()) if ack else AcknowledgeType.WHEN_SAVED,
            "validate_params": not no_parse, "propagate_exceptions": not no_prop,
        }
        fields = {"C02": ["ack_type"], "C03": ["max_async_tasks"], "C04": ["max_async_tasks", "max_prefetch"],
                  "C05": ["max_tasks_to_execute", "wait_tasks_timeout"], "C07": ["validate_params"], "C12": ["propagate_exceptions"]}[prop]
        for f in fields:
            if kw.get(f, "<missing>") != want[f]:
                acc.violation(
                    f"cli-wiring-{f}",
                    f"command line {' '.join(argv)}: Receiver got {f}={kw.get(f, '<missing>')!r}, expected {want[f]!r}",
                    {"wiring": argv},
                )
        if prop == "C05" and not cap.get("sigint_sets_event"):
            acc.violation("cli-wiring-stop-signal", f"command line {' '.join(argv)}: SIGINT handler does not set the event given to listen()", {"wiring": argv})
        acc.outcome(("wiring", prop, tuple(want[f] for f in fields)))
    acc.sample({"cli_wiring": {"property": prop, "grid_points": len(grid), "example_argv": argv}})
    check_api_wiring(prop, acc)
    check_inmemory_wiring(prop, acc)


def check_api_wiring(prop: str, acc: Acc) -> None:
    """taskiq.api.run_receiver_task(): keyword arguments reach the Receiver it builds."""
    import asyncio

    from taskiq.abc.broker import AsyncBroker
    from taskiq.acks import AcknowledgeType
    from taskiq.api.receiver import run_receiver_task
    from taskiq.receiver import Receiver
    from mc.vloop import run_sync

    class B(AsyncBroker):
        async def kick(self, message: Any) -> None:
            pass

        async def listen(self):  # pragma: no cover
            yield b""

    fields = {"C02": ["ack_type"], "C03": ["max_async_tasks"], "C04": ["max_async_tasks", "max_prefetch"],
              "C05": [], "C07": ["validate_params"], "C12": ["propagate_exceptions"]}[prop]
    for A, P, ack, val, prop_exc in itertools.product((1, 2, 7), (0, 1, 3), (None, AcknowledgeType.WHEN_RECEIVED, AcknowledgeType.WHEN_EXECUTED), (True, False), (True, False)):
        captured: Dict[str, Any] = {}

        class CapReceiver(Receiver):
            def __init__(self, **kw: Any) -> None:
                captured.update(kw)

            async def listen(self, finish_event: Any) -> None:  # type: ignore[override]
                captured["event"] = finish_event
                raise asyncio.CancelledError

        try:
            run_sync(run_receiver_task(B(), receiver_cls=CapReceiver, validate_params=val, max_async_tasks=A, max_prefetch=P,
                                       propagate_exceptions=prop_exc, ack_time=ack, sync_workers=1))
        except BaseException:
            pass
        acc.evaluations += 1
        acc.paths += 1
        acc.count("wiring_cases")
        want = {"max_async_tasks": A, "max_prefetch": P, "ack_type": ack, "validate_params": val, "propagate_exceptions": prop_exc}
        for f in fields:
            if captured.get(f, "<missing>") != want[f]:
                acc.violation(f"api-wiring-{f}", f"run_receiver_task(max_async_tasks={A}, max_prefetch={P}, ack_time={ack}, validate_params={val}, "
                              f"propagate_exceptions={prop_exc}): Receiver got {f}={captured.get(f, '<missing>')!r}", {"api_wiring": [A, P, str(ack), val, prop_exc]})


def check_inmemory_wiring(prop: str, acc: Acc) -> None:
    """InMemoryBroker(...) options reach the receiver it uses - also after startup()."""
    from taskiq import InMemoryBroker
    from mc.vloop import run_sync

    for A, cast, prop_exc, started in itertools.product((1, 3, 30), (True, False), (True, False), (False, True)):
        b = InMemoryBroker(max_async_tasks=A, cast_types=cast, propagate_exceptions=prop_exc)
        if started:
            run_sync(b.startup())
        r = b.receiver
        got = {"max_async_tasks": None if r.sem is None else r.sem._value, "validate_params": r.validate_params, "propagate_exceptions": r.propagate_exceptions}
        want = {"max_async_tasks": A, "validate_params": cast, "propagate_exceptions": prop_exc}
        acc.evaluations += 1
        acc.paths += 1
        acc.count("wiring_cases")
        fields = {"C03": ["max_async_tasks"], "C04": ["max_async_tasks"], "C07": ["validate_params"], "C12": ["propagate_exceptions"]}.get(prop, [])
        for f in fields:
            if got[f] != want[f]:
                acc.violation(f"inmemory-wiring-{f}", f"InMemoryBroker(max_async_tasks={A}, cast_types={cast}, propagate_exceptions={prop_exc}), startup called={started}: its receiver has {f}={got[f]!r}", {"inmemory_wiring": [A, cast, prop_exc, started]})
        try:
            b.executor.shutdown(wait=False)
        except Exception:
            pass


def check_manager_wiring(acc: Acc) -> None:
    import taskiq.cli.worker.run as wrun
    from taskiq.cli.worker.args import WorkerArgs

    for workers, mf, status in itertools.product((1, 2, 3), (-1, 0, 1, 3), (None, -1)):
        seen: Dict[str, Any] = {}

        class FakePM:
            def __init__(self, args: Any, observer: Any = None, worker_function: Any = None) -> None:
                seen["workers"] = args.workers
                seen["max_fails"] = args.max_fails
                seen["fn"] = worker_function

            def start(self) -> Any:
                return status

        saved = wrun.ProcessManager
        wrun.ProcessManager = FakePM  # type: ignore[assignment,misc]
        try:
            args = WorkerArgs.from_cli(["m:b", "--workers", str(workers), "--max-fails", str(mf), "--no-configure-logging"])
            rv = wrun.run_worker(args)
        finally:
            wrun.ProcessManager = saved  # type: ignore[misc]
        acc.evaluations += 1
        acc.paths += 1
        acc.count("wiring_cases")
        acc.outcome(("manager-wiring", workers, mf, status))
        if seen.get("workers") != workers or seen.get("max_fails") != mf or rv != status or seen.get("fn") is not wrun.start_listen:
            acc.violation("cli-wiring-manager", f"--workers {workers} --max-fails {mf}: manager saw {seen}, run_worker returned {rv!r} (manager status {status!r})", {"wiring": [workers, mf, status]})
    acc.sample({"cli_wiring": "run_worker -> ProcessManager(args) for workers x max_fails x status"})


def check_watcher_wiring(acc: Acc) -> None:
    """ProcessManager(args, observer=...): with --reload the observer gets exactly one FileWatcher for '.'
    (recursive) whose callback queues a reload-all on the manager's own action queue and whose gitignore
    switch is `not --do-not-use-gitignore`; without --reload nothing is scheduled."""
    import taskiq.cli.worker.process_manager as pm
    from taskiq.cli.worker.args import WorkerArgs

    class FakeObserver:
        def __init__(self) -> None:
            self.calls: List[Any] = []

        def schedule(self, handler: Any, path: Any = None, recursive: Any = None, **kw: Any) -> None:
            self.calls.append((handler, path, recursive, kw))

    class FakeSignalMod:
        SIGINT, SIGTERM, SIGHUP = pm.signal.SIGINT, pm.signal.SIGTERM, pm.signal.SIGHUP

        def signal(self, signum: Any, handler: Any) -> None:
            pass

    class FakeQ:
        def __init__(self, *a: Any) -> None:
            self.items: List[Any] = []

        def put(self, item: Any) -> None:
            self.items.append(item)

    class FakeFileWatcher:
        def __init__(self, callback: Any = None, use_gitignore: Any = "<default>", **callback_kwargs: Any) -> None:
            self.callback, self.use_gitignore, self.callback_kwargs = callback, use_gitignore, callback_kwargs

    for reload_, no_git, with_observer in itertools.product((True, False), (True, False), (True, False)):
        saved = (pm.signal, pm.Queue, pm.FileWatcher)
        pm.signal, pm.Queue, pm.FileWatcher = FakeSignalMod(), FakeQ, FakeFileWatcher  # type: ignore[assignment,misc]
        try:
            cli = ["m:b", "--no-configure-logging"] + (["--reload"] if reload_ else []) + (["--do-not-use-gitignore"] if no_git else [])
            args = WorkerArgs.from_cli(cli)
            obs = FakeObserver() if with_observer else None
            mgr = pm.ProcessManager(args, worker_function=lambda a: None, observer=obs)
        finally:
            pm.signal, pm.Queue, pm.FileWatcher = saved  # type: ignore[misc]
        acc.evaluations += 1
        acc.paths += 1
        acc.count("wiring_cases")
        acc.outcome(("watcher-wiring", reload_, no_git, with_observer))
        calls = obs.calls if obs is not None else []
        case = {"watcher_wiring": [reload_, no_git, with_observer]}
        if not (reload_ and with_observer):
            if calls:
                acc.violation("cli-wiring-watcher", f"{cli}: a file watcher was scheduled although reload is off: {calls}", case)
            continue
        ok = len(calls) == 1
        if ok:
            handler, path, recursive, kw = calls[0]
            ok = (isinstance(handler, FakeFileWatcher) and path == "." and recursive is True
                  and handler.callback is pm.schedule_workers_reload
                  and handler.callback_kwargs.get("action_queue") is mgr.action_queue
                  and handler.use_gitignore is (not no_git))
            if ok:
                # a file change: the callback must queue one reload-all on the manager's queue
                handler.callback(**handler.callback_kwargs)
                ok = [type(x).__name__ for x in mgr.action_queue.items] == ["ReloadAllAction"]
        if not ok:
            acc.violation("cli-wiring-watcher", f"{cli}: observer.schedule calls {[(type(c[0]).__name__, getattr(c[0], 'use_gitignore', None), c[1], c[2]) for c in calls]}, queue {getattr(mgr.action_queue, 'items', None)}", case)
