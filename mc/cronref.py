"""Independent reference matcher for numeric five-field cron expressions.

Grammar per field: '*' | '*/n' | item(,item)* with item = a | a-b | a-b/n | a/n.
Day-of-month / day-of-week follow the classic (Vixie) rule: if both are restricted
(neither starts with '*'), the day matches when either matches; otherwise both must match.
Day-of-week: 0 or 7 = Sunday.
"""
from __future__ import annotations

import datetime as dt
from functools import lru_cache
from typing import FrozenSet, Tuple

RANGES = [(0, 59), (0, 23), (1, 31), (1, 12), (0, 7)]


def _field(expr: str, lo: int, hi: int) -> FrozenSet[int]:
    out = set()
    for item in expr.split(","):
        step = 1
        if "/" in item:
            item, st = item.split("/")
            step = int(st)
        if item == "*":
            a, b = lo, hi
        elif "-" in item:
            x, y = item.split("-")
            a, b = int(x), int(y)
        else:
            a = int(item)
            b = hi if step != 1 else a
        out.update(range(a, b + 1, step))
    return frozenset(out)


@lru_cache(maxsize=4096)
def parse(expr: str) -> Tuple[FrozenSet[int], FrozenSet[int], FrozenSet[int], FrozenSet[int], FrozenSet[int], bool, bool]:
    f = expr.split()
    assert len(f) == 5, expr
    sets = [_field(x, lo, hi) for x, (lo, hi) in zip(f, RANGES)]
    dow = set(sets[4])
    if 7 in dow:
        dow.add(0)
    return (sets[0], sets[1], sets[2], sets[3], frozenset(dow), "*" in f[2], "*" in f[4])


def matches(expr: str, local: dt.datetime) -> bool:
    mi, ho, dom, mon, dow, dom_star, dow_star = parse(expr)
    if local.minute not in mi or local.hour not in ho or local.month not in mon:
        return False
    wd = (local.weekday() + 1) % 7  # Monday=0 -> 1, Sunday=6 -> 0
    dom_ok = local.day in dom
    dow_ok = wd in dow
    if dom_star or dow_star:
        return dom_ok and dow_ok
    return dom_ok or dow_ok
