"""RecvWorld + generated dependency graphs (for C06 and C12).

sc['deps'] = {
   'roots': [names],                       parameters of the task function
   'overrides': {declared: replacement},   broker.dependency_overrides between generated nodes
   'nodes': {name: {'style': 'plain'|'aplain'|'gen'|'agen'|'cm'|'acm',
                    'children': [names], 'cache': bool, 'gate': bool, 'gate_close': bool,
                    'fail': [message indices] , 'ctx': bool}}
}
Every node is a real function (built with exec so that taskiq_dependencies sees an
ordinary signature with Depends defaults); it records OPEN/CLOSE/SEEN events for the
message whose callback task is running it.
"""
from __future__ import annotations

import asyncio
from contextlib import asynccontextmanager, contextmanager
from typing import Any, Dict, List

from mc.recv_world import RecvWorld
from mc.vloop import HarnessError

ASYNC_STYLES = ("aplain", "agen", "acm")
TEARDOWN_STYLES = ("gen", "agen", "cm", "acm")

_TEMPLATES = {
    "plain": """
def {name}({params}):
    return _W.dep_open({name!r}, ({vals}){ctx})
""",
    "aplain": """
async def {name}({params}):
    await _W.dep_gate({name!r})
    return _W.dep_open({name!r}, ({vals}){ctx})
""",
    "gen": """
def {name}({params}):
    _v = _W.dep_open({name!r}, ({vals}){ctx})
    _seen = None
    try:
        yield _v
    except BaseException as _e:
        _seen = type(_e).__name__
        raise
    finally:
        _W.dep_close({name!r}, _seen)
""",
    "agen": """
async def {name}({params}):
    await _W.dep_gate({name!r})
    _v = _W.dep_open({name!r}, ({vals}){ctx})
    _seen = None
    try:
        yield _v
    except BaseException as _e:
        _seen = type(_e).__name__
        raise
    finally:
        await _W.dep_gate_close({name!r})
        _W.dep_close({name!r}, _seen)
""",
}
_TEMPLATES["cm"] = "\n@_contextmanager" + _TEMPLATES["gen"]
_TEMPLATES["acm"] = "\n@_asynccontextmanager" + _TEMPLATES["agen"]


class DepWorld(RecvWorld):
    def __init__(self, sc: Dict[str, Any]) -> None:
        self._failed_once: set = set()  # (message, node) pairs of 'fail_once' nodes that have failed already
        super().__init__(sc)

    def task_name_for(self, i: int) -> str:
        if self.sc.get("deps") and self.msgs[i].get("task", "dep") == "dep":
            return "t_dep"
        return super().task_name_for(i)

    # ---- helpers called from generated code -------------------------------------------
    def current_msg(self) -> int:
        t = asyncio.current_task(self.loop)
        n = self.task_name(t) if t is not None else None
        if not (isinstance(n, tuple) and n[0] == "callback"):
            raise HarnessError("dependency code running outside a callback task")
        return n[1]

    def idx_of(self, task_id: str) -> int:
        if self._shared_ids:
            # two deliveries carry this id: the one whose callback task is running
            try:
                return self.current_msg()
            except HarnessError:
                pass
        return super().idx_of(task_id)

    def dep_open(self, name: str, child_vals: Any, ctx: Any = None) -> Any:
        i = self.current_msg()
        node = self.sc["deps"]["nodes"][name]
        once = i in node.get("fail_once", ()) and (i, name) not in self._failed_once
        if i in node.get("fail", ()) or once:
            self._failed_once.add((i, name))
            self.emit("OPENFAIL", i, name)
            raise RuntimeError(f"dependency {name} cannot be resolved")
        seen = None
        if ctx is not None:
            seen = (ctx.message.task_id, tuple(ctx.message.args), ctx.message.labels.get("who"))
            self.emit("SEEN", i, name, seen)
        self.emit("OPEN", i, name)
        return (name, seen, child_vals)

    def dep_close(self, name: str, seen_exc: Any) -> None:
        if self.closed:
            return  # finaliser of a generator left suspended by a torn-down world
        self.emit("CLOSE", self.current_msg(), name, seen_exc)

    async def dep_gate(self, name: str) -> None:
        if self.closed:
            return
        if self.sc["deps"]["nodes"][name].get("gate"):
            i = self.current_msg()
            label: Any = ("dep", i, name)
            k = 1
            while label in self.gates:  # resolved again for the same message (un-cached, or a repeated resolution)
                k += 1
                label = ("dep", i, name, k)
            await self.gate(label)

    async def dep_gate_close(self, name: str) -> None:
        if self.closed:
            return
        if self.sc["deps"]["nodes"][name].get("gate_close"):
            await self.gate(("depclose", self.current_msg(), name))

    # ---- construction -------------------------------------------------------------------------
    def _install_tasks(self, broker: Any, NoResultError: Any) -> None:
        super()._install_tasks(broker, NoResultError)
        deps = self.sc.get("deps")
        if not deps:
            return
        from taskiq import Context, TaskiqDepends

        import sys
        import types

        sys.modules.setdefault("mc.dep_world_generated", types.ModuleType("mc.dep_world_generated"))
        ns: Dict[str, Any] = {
            "_W": self,
            "_contextmanager": contextmanager,
            "_asynccontextmanager": asynccontextmanager,
            "Context": Context,
            "_DEP": TaskiqDepends,
            "_Any": Any,
            "__name__": "mc.dep_world_generated",
        }
        nodes = deps["nodes"]
        done: List[str] = []

        def build(name: str) -> None:
            if name in done:
                return
            node = nodes[name]
            for c in node.get("children", []):
                build(c)
            params = [f"{c}=_DEP({c}, use_cache={bool(nodes[c].get('cache', True))})" for c in node.get("children", [])]
            if node.get("ctx"):
                params.append("ctx: Context = _DEP()")
            src = _TEMPLATES[node["style"]].format(
                name=name,
                params=", ".join(params),
                vals="".join(f"{c}, " for c in node.get("children", [])),
                ctx=", ctx" if node.get("ctx") else "",
            )
            exec(src, ns)  # noqa: S102 - harness-generated source
            ns[name].__module__ = "mc.dep_world_generated"
            done.append(name)

        for r in deps["roots"]:
            build(r)
        # dependency_overrides: declared function -> replacement function (both generated)
        for declared, replacement in (deps.get("overrides") or {}).items():
            build(declared)
            build(replacement)
            broker.dependency_overrides[ns[declared]] = ns[replacement]
        tparams = ", ".join(f"{r}=_DEP({r}, use_cache={bool(nodes[r].get('cache', True))})" for r in deps["roots"])
        extra = ", ctx: Context = _DEP()" if deps.get("task_ctx") else ""
        tsrc = f"""
async def t_dep(i, v: _Any = None, {tparams}{extra}):
    _W.dep_arg(i, v)
    return await _W.dep_task_body(i, ({''.join(r + ', ' for r in deps['roots'])}){', ctx' if deps.get('task_ctx') else ''})
"""
        exec(tsrc, ns)  # noqa: S102
        ns["t_dep"].__module__ = "mc.dep_world_generated"
        self._NoResultError = NoResultError
        broker.register_task(ns["t_dep"], task_name="t_dep")

    def dep_arg(self, i: int, v: Any) -> None:
        """The keyword argument `v: Any` of the task as the function received it (scenario key msgs[i]['kw'])."""
        if "kw" in self.msgs[i]:
            self.emit("ARGV", i, repr(v), type(v).__name__)

    async def dep_task_body(self, i: int, root_vals: Any, ctx: Any = None) -> Any:
        self.emit("START", i)
        if ctx is not None:
            self.emit("SEEN", i, "<task>", (ctx.message.task_id, tuple(ctx.message.args), ctx.message.labels.get("who")))
        self.emit("VALS", i, root_vals)
        m = self.msgs[i]
        try:
            if m["outcome"] == "never":
                fut = self.loop.create_future()
                self.never.append(fut)
                await fut
            elif m["body"] == "gated":
                await self.gate(("body", i))
        except BaseException as exc:
            self.emit("END", i, "cancelled:" + type(exc).__name__)
            raise
        return self._finish_body(i, self._NoResultError)
