"""C03 - concurrency limit respected, execution slots never leaked (E1)."""
from __future__ import annotations

import itertools
from typing import Any, Dict, List

from mc.common import Acc
from mc.recv_driver import replay as _replay
from mc.recv_driver import mark_stateless, run_scenarios
from mc.recv_world import RecvWorld

# per-message outcome alphabet of the leak histories
OUTCOMES: Dict[str, Dict[str, Any]] = {
    "return": {},
    "raise": {"outcome": "raise"},
    "timeout": {"outcome": "never", "timeout": 0.2},
    "noresult": {"outcome": "noresult"},
    "malformed": {"kind": "malformed"},
    "unknown": {"kind": "unknown"},
    "savefail": {"save_fails": True},
    "pre_fail": {"_fail": "pre_execute"},
    "post_fail": {"_fail": "post_execute"},
    "psave_fail": {"_fail": "post_save"},
    "onerr_fail": {"outcome": "raise", "_fail": "on_error"},
    "sync_return": {"flavour": "sync"},
    "sync_raise": {"flavour": "sync", "outcome": "raise"},
    "ack_raises": {"ack": "sync", "_ack_raises": True},
    "timeout_slow_unwind": {"outcome": "never", "timeout": 0.2, "unwind": "gated"},
    "raise_cancelled": {"outcome": "raise", "exc": "CancelledError"},
    "raise_systemexit": {"outcome": "raise", "exc": "SystemExit"},
    "sync_keyboardinterrupt": {"flavour": "sync", "outcome": "raise", "exc": "KeyboardInterrupt"},
    "empty_payload": {"kind": "malformed", "payload": "empty"},
    "sentinel_lookalike": {"kind": "malformed", "payload": "sentinel-lookalike"},
    "ack_future": {"ack": "future", "gates": ["ack"]},
}

META = {
    "kind": "graph",
    "engine": "E1 explicit-state exploration of Receiver.listen() on a hand-stepped event loop",
    "rule": (
        "(a) over-admission: n = A+2 valid gated messages, all orderings of deliveries/completions/timers, "
        "level 1 adds two events in one loop iteration (completion and arrival coincide); invariant at every "
        "event: #messages in processing (callback begun, not ended) <= A and #task functions executing (started, not "
        "finished incl. their cancellation clean-up) <= A, and with A=1 processing order = "
        "delivery order. (b) leak: every history of length <= L over the outcome alphabet (return, raise, "
        "timeout, timeout with a slow cancellation clean-up, CancelledError / SystemExit / KeyboardInterrupt raised by the task, no-result, "
        "malformed, empty payload, payload equal to the internal end marker, unknown, ack returning a Task, backend failure, failing "
        "pre_execute/post_execute/post_save/on_error hook, sync return/raise, raising ack), bodies gated so the history is processed in every "
        "order/overlap the limit allows, followed by a saturation probe of A+1 never-finishing messages; in "
        "every quiescent state where the history is finished and only timers are enabled exactly A probe "
        "bodies must be running; in every quiescent state where only timers are enabled, a taken message is being processed "
        "unless all slots are occupied (progress); more generally in every quiescent state a taken message waits only while all A "
        "slots are occupied (work conservation). Level-1 leak histories: pairs (thorough: also triples) of outcomes ending in the same "
        "loop iteration, then the probe. distinct_nontrivial = distinct terminal/saturated per-message logs."
        " Fault-overlap family (mc/fault_overlap.py): message X suffers one fault out of {pre_execute/post_execute/post_save/on_error hook, sync or async ack, result backend} x {RuntimeError, CancelledError, TimeoutError}, backend failing once, body raise/CancelledError/timeout/no-result, malformed/unknown message, broker stream error, while the healthy message Y has suspension points before, inside and after its function and the stop request may arrive at any point; for A in {1,2} and the default / when_received acknowledge point, stop disabled, followed by the saturation probe."
        " Repeated faults (mc/fault_overlap.py::repeats): the same fault k times in a row (k in 3..6; thorough up to 10) on one worker, then healthy messages - a counter, pool, budget or throttle inside the worker must not change what happens at the k-th occurrence. Followed by the saturation probe (A in {1,2})."
        " Programmatic entry point taskiq.api.run_receiver_task restarting after 1-3 broker stream errors on an idle worker, then the probe."
    ),
    "assumptions": [
        "asyncio semantics as implemented by BaseEventLoop (only clock/selector replaced)",
        "sync tasks run on a fake executor whose completions are explorer events (no real threads)",
    ],
    "required_counters": ["wiring_cases", "scenarios", "probe_judged"],
    "bounds": {
        "quick": {"A": [1, 2, 3], "history_len": 2, "L1": "over-admission for A in 1..2; same-iteration pairs over 5 outcomes, A=2"},
        "thorough": {"A": [1, 2, 3], "history_len": 3, "L1": "over-admission A in 1..3; leak histories len 1; same-iteration pairs over all outcomes (A=2) and triples over 3 (A=3)"},
    },
}


class C03World(RecvWorld):
    def _make_ack(self, i: int, mode: str) -> Any:
        inner = super()._make_ack(i, mode)
        if not self.msgs[i].get("_ack_raises"):
            return inner
        world = self

        def ack() -> None:
            world.emit("ACK_B", i)
            raise RuntimeError("ack failed")

        return ack

    def metrics(self) -> Dict[str, int]:
        m = super().metrics()
        m["probe_judged"] = getattr(self, "_judged", 0)
        return m

    def check_quiescent(self) -> None:
        super().check_quiescent()
        # progress: when nothing but timers can happen any more, a message that was taken from the broker
        # has begun processing unless every slot is occupied
        menu0 = self.enabled()
        if self.A is not None and not self.ret:
            # (work conservation) the runner takes a queued message as soon as it owns a slot, so at
            # quiescence a taken message waits only while all A slots are occupied - whatever else
            # is still pending. With only timers left this is a stall; otherwise a lost slot.
            waiting = [k for k in self.taken if k not in self.cb_open and k not in self.cb_done]
            if waiting and len(self.cb_open) < self.A:
                self.flag(
                    "C03:stalled-with-free-slot" if all(e[0] == "timer" for e in menu0) else "C03:free-slot-unused",
                    f"messages {waiting} were taken from the broker but are not being processed although only "
                    f"{len(self.cb_open)} of {self.A} slots are in use at a quiescent state (pending events: {[e for e in menu0 if e[0] != 'timer'][:4]}; history "
                    f"{[m.get('_name') for m in self.msgs[: self.n - self.sc.get('probe', 0)]]})",
                )
        # (progress of each message) with nothing but timers left, a message in processing is either a
        # never-ending body or waits for a timer of its own (timeout label); anything else is blocked for
        # ever on something inside the worker and keeps its slot
        if all(e[0] == "timer" for e in menu0) and not self.ret:
            for k in self.cb_open:
                if self.msgs[k]["outcome"] == "never" or k in getattr(self, "_blocked_flagged", set()):
                    continue
                if any(repr(("callback", k)) in repr(e) for e in menu0):
                    continue
                # waiting for an event of the harness that the scenario's completion budget withholds
                if any(not f.done() and len(lab) > 1 and lab[1] == k for lab, f in self.gates.items() if isinstance(lab, tuple)):
                    continue
                pend = self.executor.pending.get(k)
                if pend is not None and not pend[0].done():
                    continue
                self.__dict__.setdefault("_blocked_flagged", set()).add(k)
                self.flag(
                    "C03:processing-blocked-forever",
                    f"message {k} is in processing, no external event and no timer of its own is pending, yet it does not finish "
                    f"(it holds one of the {self.A} slots): {self.per[k]}",
                )
        nprobe = self.sc.get("probe", 0)
        if not nprobe or self.A is None:
            return
        hist = [k for k in range(self.n - nprobe) if self.msgs[k]["kind"] != "stream_error"]
        if any(k not in self.cb_done for k in hist) or self.next_k < self.n - nprobe:
            return
        menu = self.enabled()
        if any(e[0] != "timer" for e in menu):
            return
        self._judged = 1
        running = [k for k in self.started if k >= self.n - nprobe]
        if len(running) != min(self.A, nprobe):
            self.flag(
                "C03:slot-leak" if len(running) < self.A else "C03:over-release",
                f"after history {[self.msgs[k].get('_name') for k in hist]} only {len(running)} of {self.A} slots can be "
                f"used: probes started {running}, taken {self.taken}",
            )


def _history_scenario(a: int, names: List[str], level: int = 0) -> Dict[str, Any]:
    msgs = []
    fail: Dict[str, List[int]] = {}
    for i, nm in enumerate(names):
        m = dict(OUTCOMES[nm])
        m["_name"] = nm
        f = m.pop("_fail", None)
        if f:
            fail.setdefault(f, []).append(i)
        msgs.append(m)
    hooks = {h: "sync" for h in ("pre_execute", "post_execute", "post_save", "on_error")} if fail else {}
    mws = [{"hooks": hooks, "fail": fail}] if fail else []
    return {"A": a, "P": 0, "N": None, "stream": "infinite", "stop": False, "level": level,
            "msgs": msgs, "mws": mws, "probe": a + 1}


def scenarios(tier: str) -> List[Dict[str, Any]]:
    out: List[Dict[str, Any]] = []
    # (a) over-admission
    for a in (1, 2, 3):
        for p in (0, 1):
            out.append({"A": a, "P": p, "N": None, "stream": "infinite", "stop": False, "level": 0,
                        "msgs": [{} for _ in range(a + 2)]})
    # a timed-out task that is slow to finish its cancellation clean-up still occupies its slot
    for a in (1, 2):
        out.append({"A": a, "P": 1, "N": None, "stream": "infinite", "stop": False, "level": 0,
                    "msgs": [dict(OUTCOMES["timeout_slow_unwind"]) for _ in range(a)] + [{} for _ in range(2)]})
    l1 = (1, 2) if tier == "quick" else (1, 2, 3)
    for a in l1:
        out.append({"A": a, "P": 0, "N": None, "stream": "infinite", "stop": False, "level": 1,
                    "msgs": [{} for _ in range(a + 2)], "max_body": 3})
    # (b) leak histories + probe
    names = list(OUTCOMES)
    L = 2 if tier == "quick" else 3
    for a in (1, 2, 3):
        for ln in range(1, L + 1):
            if ln == 3 and a != 2:
                continue
            for hist in itertools.product(names, repeat=ln):
                if ln == 3 and len(set(hist)) == 3 and a == 2:
                    # length-3 histories: only those that repeat an outcome at least once or ... keep all for A=2
                    pass
                out.append(_history_scenario(a, list(hist)))
    # histories whose two messages end in the same loop iteration (both done-callbacks see both tasks finished)
    same_tick = ["return", "raise", "timeout", "sync_return", "noresult"] if tier == "quick" else names
    for h in itertools.product(same_tick, repeat=2):
        out.append(_history_scenario(2, list(h), level=1))
    out += fault_family(tier)
    if tier == "thorough":
        for a in (1, 2):
            for nm in names:
                out.append(_history_scenario(a, [nm], level=1))
        for h in itertools.product(["return", "raise", "timeout"], repeat=3):
            out.append(_history_scenario(3, list(h), level=1))
    return out


def fault_family(tier: str) -> List[Dict[str, Any]]:
    """One fault in message X (hook / ack / backend raising RuntimeError, CancelledError or TimeoutError, body
    outcomes, junk) overlapping the healthy message Y, for A in {1, 2} and both the default and the
    when_received acknowledge point, followed by the saturation probe (mc/fault_overlap.py): never more than
    A messages in processing or A task functions executing, and afterwards all A slots usable."""
    from mc import fault_overlap as fo

    out = []
    for a in (1, 2):
        for at in (None, "when_received"):
            for sc in fo.family(tier, ack_types=(at,), a=a, stop=False, only=("hook", "ack", "save", "body", "junk"),
                                orders=(True, False) if tier == "thorough" else (True,)):
                if tier == "quick" and at == "when_received" and sc["fault"][0] not in ("ack", "hook"):
                    continue
                sc["probe"] = a + 1
                out.append(sc)
    # the programmatic entry point (taskiq.api.run_receiver_task) restarting after broker stream errors, idle
    # and with a message in flight, then the probe
    for a in (1, 2):
        for pat in (("e",), ("v", "e"), ("e", "e"), ("v", "e", "v", "e"), ("e", "v", "e", "e")):
            # bodies finish at once: every broker error meets an idle worker (what becomes of messages in
            # flight across a restart is outside the property's quantifier)
            msgs = [{"kind": "stream_error"} if c == "e" else {"body": "immediate"} for c in pat]
            out.append({"A": a, "P": 0, "N": None, "stream": "infinite", "stop": False, "level": 0, "entry": "api",
                        "msgs": msgs, "probe": a + 1})
    # the same outcome 3..6 times in a row (a pool, a budget or a throttle inside the worker), then the probe
    for a in (1, 2):
        for sc in fo.repeats(tier, ks=(3, 4, 5, 6) if tier == "quick" else (3, 4, 5, 6, 8, 10), a=a, tail=0, overlap=(a == 2 and tier == "thorough")):
            sc["probe"] = a + 1
            sc["stream"] = "infinite"
            out.append(sc)
    return out


def shards(tier: str, seed: int) -> List[Any]:
    return _shards(tier, seed) + [[{"wiring": "C03"}]]


def _shards(tier: str, seed: int) -> List[Any]:
    scs = scenarios(tier)
    if tier == "thorough":
        mark_stateless(scs, 4, 9)
    scs.sort(key=lambda s: (-s["level"], -len(s["msgs"])))
    big = [s for s in scs if s["level"] > 0 or len(s["msgs"]) > 5]
    small = [s for s in scs if not (s["level"] > 0 or len(s["msgs"]) > 5)]
    return [[s] for s in big] + [small[i : i + 10] for i in range(0, len(small), 10)]


def _per(sc: Dict[str, Any], res: Any, acc: Acc) -> None:
    if sc.get("probe"):
        if res.maxima.get("probe_judged", 0):
            acc.count("probe_judged")
        else:
            acc.cap(f"probe never judged for history {[m.get('_name') for m in sc['msgs']]} A={sc['A']}")
    else:
        acc.maximum(f"inflight_A{sc['A']}", res.maxima.get("max_inflight", 0))
        if res.maxima.get("max_inflight", 0) < sc["A"]:
            acc.cap(f"over-admission scenario A={sc['A']} never reached {sc['A']} concurrent messages")


def run_shard(shard: List[Dict[str, Any]]) -> Dict[str, Any]:
    if shard and shard[0].get("wiring"):
        from mc.cli_wiring import check_worker_wiring

        acc = Acc()
        check_worker_wiring("C03", acc)
        return acc.as_dict()
    return run_scenarios("C03", shard, C03World, per_scenario=_per).as_dict()


def replay(obj: Dict[str, Any]) -> int:
    return _replay(obj, C03World)
