"""C20 - loading a stored error never instantiates anything but an exception class (E3)."""
from __future__ import annotations

import itertools
import json
import sys
import types
from typing import Any, Dict, List, Optional, Tuple

from mc.common import Acc

META = {
    "kind": "inputs",
    "engine": "E3 bounded-exhaustive enumeration of crafted stored-error payloads with recording trap objects registered in sys.modules",
    "rule": (
        "every (exc_module, dotted exc_type) over a planted module tree registered in sys.modules (functions, builtin "
        "functions, non-exception classes, callable instances, sub-modules, nested attribute paths through classes and "
        "sub-modules, Exception and BaseException subclasses, methods of exception classes, class/static methods, missing "
        "names, missing modules, module None) plus harmless real names (builtins.object/len/print/eval, os.system, "
        "subprocess.Popen, taskiq.serialization.ExceptionRepr) x args in {(), ('x',), (1, 2), ('a', 2, None)} x placement {top level and every "
        "cause/context path of depth 1..3 below benign payloads (thorough: depth 4 too)} x loader {exception_to_python(ExceptionRepr), "
        "TaskiqResult.model_validate(dict), TaskiqResult.model_validate_json, and an _UnpickleableExceptionWrapper instance carrying the "
        "same names (what a pickled result holds)}. Monitors: every planted callable/class records "
        "calls and instantiations; a sys.meta_path recorder and a sys.modules key diff detect imports. Oracle: the outcome is a "
        "BaseException instance or SecurityError/ValidationError; zero recorded calls except constructors of BaseException "
        "subclasses; no import attempt; an unresolvable name yields a synthetic Exception subclass of that name; after the payloads of each target, probe loads of known non-exceptions are still refused and no "
        "module namespace (taskiq.serialization, taskiq.exceptions, the planted module, builtins) gained or lost an attribute. "
        "Alias sequences: for 15 dotted names every ordered pair of spellings (all module/type split points and the module-less "
        "form, incl. a planted name that is an exception class through one split and a function through the other) loaded one "
        "after the other in one process, and a name loaded before and after its module appears in sys.modules: each load is "
        "judged by what its spelling denotes at that moment. "
        "distinct_nontrivial = distinct (target kind, placement, loader, outcome) classes."
        " Targets naming un-imported sub-packages through the loaded package (taskiq.api..., taskiq.cli..., ...), judged by a static attribute lookup."
    ),
    "assumptions": [
        "attribute hooks that run on plain getattr (module __getattr__, descriptors) are not planted: resolving a dotted name necessarily reads attributes",
    ],
    "required_counters": ["payloads", "security_errors", "exceptions_built", "synthetic_classes", "alias_loads"],
    "bounds": {"quick": {"placements": "all cause/context paths of depth <= 3 (15)", "loaders": 4}, "thorough": {"placements": "depth <= 3, plus depth 4 with one argument list", "loaders": 4, "extra": "two payloads per result (cause and context both crafted)"}},
}

CALLS: List[str] = []


def _plant() -> None:
    if "vplant" in sys.modules:
        return
    m = types.ModuleType("vplant")
    sub = types.ModuleType("vplant.sub")

    def trap_fn(*a: Any, **k: Any) -> str:
        CALLS.append("vplant.trap_fn")
        return "called"

    class NonExc:
        def __init__(self, *a: Any, **k: Any) -> None:
            CALLS.append("vplant.NonExc")

    class CallableInst:
        def __call__(self, *a: Any, **k: Any) -> str:
            CALLS.append("vplant.callable_inst")
            return "called"

    class GoodExc(Exception):
        def __init__(self, *a: Any) -> None:
            CALLS.append("exc:vplant.GoodExc")
            super().__init__(*a)

        def method(self, *a: Any) -> None:
            CALLS.append("vplant.GoodExc.method")

        @classmethod
        def build(cls, *a: Any) -> "GoodExc":
            CALLS.append("vplant.GoodExc.build")
            return cls(*a)

        @staticmethod
        def helper(*a: Any) -> None:
            CALLS.append("vplant.GoodExc.helper")

    class GoodBase(BaseException):
        def __init__(self, *a: Any) -> None:
            CALLS.append("exc:vplant.GoodBase")
            super().__init__(*a)

    class PickyExc(Exception):
        def __init__(self, a: Any, b: Any, c: Any) -> None:
            CALLS.append("exc:vplant.PickyExc")
            super().__init__(a, b, c)

    class Meta(type):
        def __call__(cls, *a: Any, **k: Any) -> Any:
            CALLS.append("vplant.MetaMade")
            return "made"

    class MetaMade(metaclass=Meta):
        pass

    class Outer:
        class Inner(Exception):
            def __init__(self, *a: Any) -> None:
                CALLS.append("exc:vplant.Outer.Inner")
                super().__init__(*a)

        class InnerNon:
            def __init__(self, *a: Any) -> None:
                CALLS.append("vplant.Outer.InnerNon")

        fn = staticmethod(trap_fn)

    class SubExc(Exception):
        pass

    def sub_fn(*a: Any) -> None:
        CALLS.append("vplant.sub.sub_fn")

    for cls in (NonExc, CallableInst, GoodExc, GoodBase, PickyExc, MetaMade, Outer, SubExc):
        cls.__module__ = "vplant"
    SubExc.__module__ = "vplant.sub"
    m.trap_fn = trap_fn
    m.NonExc = NonExc
    m.callable_inst = CallableInst()
    m.GoodExc = GoodExc
    m.GoodBase = GoodBase
    m.PickyExc = PickyExc
    m.MetaMade = MetaMade
    m.Outer = Outer
    m.sub = sub
    m.builtin_alias = len
    m.partial_trap = __import__("functools").partial(trap_fn, 1)
    m.an_int = 5
    sub.SubExc = SubExc
    sub.sub_fn = sub_fn

    # the same dotted name reached through two split points: attribute `twin` of the package is a namespace
    # whose `Err` is a genuine exception class, the loaded submodule `vplant.twin` has a function `Err`
    class TwinErr(Exception):
        def __init__(self, *a: Any) -> None:
            CALLS.append("exc:vplant.twin.Err(attribute)")
            super().__init__(*a)

    def twin_fn(*a: Any, **k: Any) -> str:
        CALLS.append("vplant.twin.Err(function in submodule)")
        return "called"

    class twin:  # noqa: N801
        Err = TwinErr

    TwinErr.__module__ = "vplant"
    TwinErr.__qualname__ = "twin.Err"
    m.twin = twin
    twin_mod = types.ModuleType("vplant.twin")
    twin_mod.Err = twin_fn
    sys.modules["vplant"] = m
    sys.modules["vplant.sub"] = sub
    sys.modules["vplant.twin"] = twin_mod


# (module, dotted type, kind) ; kind in exc | nonexc | unresolved
TARGETS: List[Tuple[Optional[str], str, str]] = [
    ("vplant", "trap_fn", "nonexc"),
    ("vplant", "NonExc", "nonexc"),
    ("vplant", "callable_inst", "nonexc"),
    ("vplant", "MetaMade", "nonexc"),
    ("vplant", "builtin_alias", "nonexc"),
    ("vplant", "partial_trap", "nonexc"),
    ("vplant", "an_int", "nonexc"),
    ("vplant", "sub", "nonexc"),
    ("vplant", "Outer", "nonexc"),
    ("vplant", "Outer.InnerNon", "nonexc"),
    ("vplant", "Outer.fn", "nonexc"),
    ("vplant", "GoodExc.method", "nonexc"),
    ("vplant", "GoodExc.build", "nonexc"),
    ("vplant", "GoodExc.helper", "nonexc"),
    ("vplant", "GoodExc.__init__", "nonexc"),
    ("vplant", "sub.sub_fn", "nonexc"),
    ("vplant.sub", "sub_fn", "nonexc"),
    ("vplant", "GoodExc", "exc"),
    ("vplant", "GoodBase", "exc"),
    ("vplant", "PickyExc", "exc"),
    ("vplant", "Outer.Inner", "exc"),
    ("vplant", "sub.SubExc", "exc"),
    ("vplant.sub", "SubExc", "exc"),
    ("builtins", "ValueError", "exc"),
    ("builtins", "KeyboardInterrupt", "exc"),
    ("builtins", "object", "nonexc"),
    ("builtins", "len", "nonexc"),
    ("builtins", "print", "nonexc"),
    ("builtins", "eval", "nonexc"),
    ("builtins", "type", "nonexc"),
    ("os", "system", "nonexc"),
    ("os", "path.join", "nonexc"),
    ("subprocess", "Popen", "nonexc"),
    ("taskiq.serialization", "ExceptionRepr", "nonexc"),
    ("taskiq.serialization", "create_exception_cls", "nonexc"),
    ("vplant", "Missing", "unresolved"),
    ("vplant", "GoodExc.missing", "unresolved"),
    ("vplant", "sub.Missing", "unresolved"),
    ("vplant_not_loaded", "Thing", "unresolved"),
    ("vplant_not_loaded.deeper", "Thing", "unresolved"),
    ("json.tool", "main", "unresolved-if-not-loaded"),
    ("antigravity", "geohash", "unresolved-if-not-loaded"),
    (None, "Anything", "unresolved"),
    (None, "os.system", "unresolved"),
    (None, "print", "unresolved"),
    (None, "object", "unresolved"),
    (None, "ValueError", "unresolved"),
    (None, "trap_fn", "unresolved"),
    # names the loader itself relies on: a stand-in created for them must not end up anywhere it could shadow them
    (None, "issubclass", "unresolved"),
    (None, "isinstance", "unresolved"),
    (None, "type", "unresolved"),
    (None, "BaseException", "unresolved"),
    (None, "getattr", "unresolved"),
    ("taskiq.serialization", "issubclass", "unresolved"),
    ("taskiq.exceptions", "isinstance", "unresolved"),
    # attributes of the loaded package `taskiq` that are sub-packages it has NOT imported: resolving them
    # must neither import them nor find anything (kind decided at run time by a static lookup)
    ("taskiq", "api.run_receiver_task", "auto"),
    ("taskiq", "api", "auto"),
    ("taskiq", "cli.worker.run.start_listen", "auto"),
    ("taskiq", "schedule_sources.LabelScheduleSource", "auto"),
    ("taskiq", "brokers.zmq_broker.ZeroMQBroker", "auto"),
    ("taskiq", "middlewares.prometheus_middleware.PrometheusMiddleware", "auto"),
    ("taskiq", "InMemoryBroker", "auto"),
]
ARGS: List[Tuple[Any, ...]] = [(), ("x",), (1, 2), ("a", 2, None)]
PLACEMENTS = ["top"] + [".".join(c) for d in (1, 2, 3) for c in itertools.product(("cause", "context"), repeat=d)]
DEEP_PLACEMENTS = [".".join(c) for c in itertools.product(("cause", "context"), repeat=4)]  # thorough, args ('x',) only
LOADERS = ["exception_to_python", "model_validate", "model_validate_json", "wrapper_instance"]


def payload(mod: Optional[str], typ: str, args: Tuple[Any, ...]) -> Dict[str, Any]:
    return {"exc_type": typ, "exc_message": list(args), "exc_module": mod, "exc_cause": None, "exc_context": None, "exc_suppress_context": False}


def wrap(p: Dict[str, Any], placement: str) -> Dict[str, Any]:
    """The crafted payload at the end of a chain of benign RuntimeError payloads linked as `placement` says."""
    def benign(**kw: Any) -> Dict[str, Any]:
        d = payload("builtins", "RuntimeError", ("outer",))
        d.update(kw)
        return d

    if placement == "top":
        return p
    cur = p
    for part in reversed(placement.split(".")):
        cur = benign(**{"exc_cause" if part == "cause" else "exc_context": cur})
    return cur


def _planted_classes() -> Any:
    m = sys.modules["vplant"]
    return {v for v in vars(m).values() if isinstance(v, type)} | {ValueError, KeyboardInterrupt}


class ImportSpy:
    def __init__(self) -> None:
        self.seen: List[str] = []

    def find_spec(self, name: str, path: Any = None, target: Any = None) -> None:
        self.seen.append(name)
        return None


def dig(exc: BaseException, placement: str) -> Any:
    cur: Any = exc
    if placement == "top":
        return cur
    for part in placement.split("."):
        cur = cur.__cause__ if part == "cause" else cur.__context__
        if cur is None:
            return None
    return cur


def run_case(target: Tuple[Optional[str], str, str], args: Tuple[Any, ...], placement: str, loader: str, acc: Acc) -> None:
    from pydantic import ValidationError
    from taskiq.exceptions import SecurityError
    from taskiq.result import TaskiqResult
    from taskiq.serialization import ExceptionRepr, exception_to_python

    _plant()
    mod, typ, kind = target
    if loader == "wrapper_instance":
        kind = "wrapper"
    if kind == "auto":
        kind = _truth(mod, typ)
    if kind == "unresolved-if-not-loaded":
        kind = "unresolved" if mod not in sys.modules else "skip"
        if kind == "skip":
            return
    doc = wrap(payload(mod, typ, args), placement)
    CALLS.clear()
    spy = ImportSpy()
    before = set(sys.modules)
    sys.meta_path.insert(0, spy)
    out: Any = None
    err: Any = None
    try:
        if loader == "wrapper_instance":
            # what a pickled result carries for an un-picklable error: restoring it must build a
            # synthetic class from the recorded names, never look the name up and call it
            from taskiq.serialization import _UnpickleableExceptionWrapper

            w = _UnpickleableExceptionWrapper(mod or "vplant_none", typ, tuple(args), "text")
            if placement == "top":
                out = exception_to_python(w)
            else:
                d2 = wrap(payload("builtins", "RuntimeError", ("x",)), placement)
                # put the wrapper instance where the crafted payload would be
                cur = d2
                parts = placement.split(".")
                for part in parts[:-1]:
                    cur = cur["exc_cause" if part == "cause" else "exc_context"]
                cur["exc_cause" if parts[-1] == "cause" else "exc_context"] = w
                out = exception_to_python(ExceptionRepr.model_validate(d2))
        elif loader == "exception_to_python":
            out = exception_to_python(ExceptionRepr.model_validate(doc))
        elif loader == "model_validate":
            out = TaskiqResult.model_validate({"is_err": True, "return_value": None, "execution_time": 0.1, "error": doc}).error
        else:
            out = TaskiqResult.model_validate_json(json.dumps({"is_err": True, "return_value": None, "execution_time": 0.1, "error": doc})).error
    except BaseException as exc:
        err = exc
    finally:
        sys.meta_path.remove(spy)
    new_mods = set(sys.modules) - before
    acc.evaluations += 1
    acc.count("payloads")
    case = {"module": mod, "type": typ, "args": list(args), "placement": placement, "loader": loader}
    bad_calls = [c for c in CALLS if not c.startswith("exc:")]
    rp = {"case": [list(target), list(args), placement, loader]}
    if bad_calls:
        acc.violation(
            "non-exception-called",
            f"loading {case} called/instantiated {bad_calls}",
            rp,
        )
    if spy.seen or new_mods:
        acc.violation("import-attempted", f"loading {case} tried to import {spy.seen or sorted(new_mods)}", rp)
    if err is not None:
        okerr = isinstance(err, (SecurityError, ValidationError))
        acc.outcome((kind, placement, loader, type(err).__name__))
        if okerr:
            acc.count("security_errors")
        if not okerr:
            acc.violation(f"unexpected-error-{type(err).__name__}", f"loading {case} raised {type(err).__name__}: {err}", rp)
        elif kind != "nonexc":
            acc.violation("legitimate-payload-rejected", f"loading {case} ({kind}) raised {type(err).__name__}: {str(err)[:200]}", rp)
        return
    if not isinstance(out, BaseException):
        acc.violation("loaded-object-not-an-exception", f"loading {case} produced {out!r}", rp)
        return
    acc.count("exceptions_built")
    inner = dig(out, placement)
    acc.outcome((kind, placement, loader, "exception"))
    if kind == "nonexc":
        acc.violation("non-exception-accepted", f"loading {case} succeeded with {out!r} (nested: {inner!r}) although the name is not an exception class", rp)
        return
    if inner is None:
        acc.violation("nested-link-lost", f"loading {case}: link {placement} is missing on {out!r}", rp)
        return
    last = typ.split(".")[-1]
    if kind == "wrapper":
        acc.count("synthetic_classes")
        if not (isinstance(inner, Exception) and type(inner).__name__ == typ and type(inner) not in _planted_classes()):
            acc.violation("wrapper-restored-to-real-object", f"loading {case}: restoring the wrapper gave {inner!r} of class {type(inner).__module__}.{type(inner).__qualname__}", rp)
        return
    if kind == "unresolved":
        acc.count("synthetic_classes")
        if not (isinstance(inner, Exception) and type(inner).__name__ == typ and tuple(inner.args) == tuple(args)):
            acc.violation("unresolved-name-not-synthetic", f"loading {case}: got {inner!r} of class {type(inner).__module__}.{type(inner).__qualname__}, expected a synthetic Exception subclass named {typ!r}", rp)
    else:
        resolved = sys.modules[mod]
        for part in typ.split("."):
            resolved = getattr(resolved, part)
        picky = typ == "PickyExc" and len(args) != 3
        if not picky and (type(inner) is not resolved or tuple(inner.args) != tuple(args)):
            acc.violation("exception-class-not-rebuilt", f"loading {case}: got {inner!r} ({type(inner).__qualname__})", rp)
        if picky and not (isinstance(inner, Exception) and last in str(inner)):
            acc.violation("fallback-does-not-name-class", f"loading {case}: got {inner!r}", rp)
    if acc.evaluations % 397 == 1:
        acc.sample({"payload": case, "outcome": repr(out)[:120], "recorded_calls": list(CALLS)})


# ---- the same dotted name spelled in different ways, loaded one after the other ---------------------------
def _truth(mod: Optional[str], typ: str) -> str:
    """What the name really denotes right now: exc | nonexc | unresolved."""
    if mod is None or mod not in sys.modules:
        return "unresolved"
    import inspect

    cur: Any = sys.modules[mod]
    for part in typ.split("."):
        # static lookup: must not run a module-level __getattr__ or a descriptor (that would be the
        # harness, not the loader, importing or computing something)
        try:
            cur = inspect.getattr_static(cur, part)
        except AttributeError:
            return "unresolved"
        if isinstance(cur, (staticmethod, classmethod)):
            cur = cur.__func__
    return "exc" if isinstance(cur, type) and issubclass(cur, BaseException) else "nonexc"


def _spellings(joined: str) -> List[Tuple[Optional[str], str]]:
    parts = joined.split(".")
    out: List[Tuple[Optional[str], str]] = [(None, joined)]
    for k in range(1, len(parts)):
        out.append((".".join(parts[:k]), ".".join(parts[k:])))
    return out


ALIAS_NAMES = [
    "vplant.trap_fn", "vplant.NonExc", "vplant.sub.sub_fn", "vplant.sub.SubExc", "vplant.GoodExc", "vplant.GoodExc.build",
    "vplant.Outer.Inner", "vplant.Outer.InnerNon", "vplant.twin.Err", "os.system", "os.path.join", "builtins.print",
    "builtins.ValueError", "subprocess.Popen", "taskiq.serialization.create_exception_cls",
]


def run_alias_sequences(acc: Acc) -> None:
    """Every ordered pair of spellings (module / type split points, and the module-less form) of one dotted
    name, loaded one after the other in this process; then a name loaded while its module is absent and again
    after the module has appeared. Each load is judged on its own by what the spelling denotes at that
    moment - a spelling that denotes a non-exception is refused whatever an earlier load concluded."""
    _plant()
    import subprocess  # noqa: F401  (a loaded module for the subprocess.Popen spellings)

    for joined in ALIAS_NAMES:
        sp = _spellings(joined)
        for s1, s2 in itertools.permutations(sp, 2):
            for placement, loader in (("top", "exception_to_python"), ("cause", "model_validate_json")):
                for s in (s1, s2):
                    acc.count("alias_loads")
                    run_case((s[0], s[1], _truth(*s)), ("x",), placement, loader, acc)
    # late resolution
    for placement, loader in (("top", "exception_to_python"), ("context", "model_validate")):
        sys.modules.pop("vplant_late", None)
        run_case(("vplant_late", "run", "unresolved"), ("x",), placement, loader, acc)
        late = types.ModuleType("vplant_late")

        def run(*a: Any, **k: Any) -> str:
            CALLS.append("vplant_late.run")
            return "called"

        late.run = run
        sys.modules["vplant_late"] = late
        try:
            acc.count("alias_loads")
            run_case(("vplant_late", "run", "nonexc"), ("x",), placement, loader, acc)
        finally:
            sys.modules.pop("vplant_late", None)
    for v in acc.violations.values():
        v["replay"] = {"alias": True}


def shards(tier: str, seed: int) -> List[Any]:
    return [{"tier": tier, "t": i} for i in range(len(TARGETS))] + [{"tier": tier, "alias": True}]


def _namespaces() -> Dict[str, Any]:
    import taskiq.exceptions
    import taskiq.serialization

    return {m.__name__: dict(vars(m)) for m in (taskiq.serialization, taskiq.exceptions, sys.modules["vplant"], sys.modules["builtins"])}


def probe_after(t: Any, before: Dict[str, Any], acc: Acc) -> None:
    """State carried between loads: after all payloads of one target, (1) known non-exceptions are still
    refused and known exception classes still load, (2) no loaded module gained or lost an attribute."""
    for probe in (("vplant", "NonExc", "nonexc"), ("builtins", "object", "nonexc"), ("vplant", "trap_fn", "nonexc"), ("vplant", "GoodExc", "exc")):
        n0 = len(acc.violations)
        run_case(probe, ("x",), "top", "model_validate_json", acc)
        run_case(probe, ("x",), "cause", "exception_to_python", acc)
        if len(acc.violations) != n0:
            acc.violation(
                "gate-changed-by-earlier-payload",
                f"after loading the payloads naming {t[0]}.{t[1]} the loader treats {probe[0]}.{probe[1]} differently (see the other violations)",
                {"case": [list(t), ["x"], "top", "model_validate_json"]},
            )
    after = _namespaces()
    for mod, ns in before.items():
        added = sorted(set(after[mod]) - set(ns))
        changed = sorted(k for k in ns if k in after[mod] and after[mod][k] is not ns[k])
        if added or changed:
            acc.violation(
                "loader-polluted-a-module-namespace",
                f"loading the payloads naming {t[0]}.{t[1]} added {added} / rebound {changed} in module {mod}",
                {"case": [list(t), ["x"], "top", "model_validate_json"]},
            )
            m = sys.modules[mod]
            for k in added:
                delattr(m, k)
            for k in changed:
                setattr(m, k, ns[k])


def run_shard(shard: Dict[str, Any]) -> Dict[str, Any]:
    acc = Acc()
    _plant()
    if shard.get("alias"):
        run_alias_sequences(acc)
        return acc.as_dict()
    t = TARGETS[shard["t"]]
    before = _namespaces()
    for args, placement, loader in itertools.product(ARGS, PLACEMENTS, LOADERS):
        run_case(t, args, placement, loader, acc)
    probe_after(t, before, acc)
    if shard["tier"] == "thorough":
        for placement, loader in itertools.product(DEEP_PLACEMENTS, LOADERS):
            run_case(t, ("x",), placement, loader, acc)
        # two crafted payloads in one result: the trap in the context, a legitimate one in the cause and vice versa
        for other in TARGETS[:: 5]:
            for args in ARGS[:2]:
                run_case(t, args, "cause.context", "model_validate_json", acc)
    return acc.as_dict()


def replay(obj: Dict[str, Any]) -> int:
    acc = Acc()
    if obj.get("alias"):
        run_alias_sequences(acc)  # the whole family in order: the violation depends on earlier loads
        for k, v in acc.violations.items():
            print("oracle:", k, "-", v["message"])
        return 1 if acc.violations else 0
    t, args, placement, loader = obj["case"]
    run_case((t[0], t[1], t[2]), tuple(args), placement, loader, acc)
    for k, v in acc.violations.items():
        print("oracle:", k, "-", v["message"])
    return 1 if acc.violations else 0
