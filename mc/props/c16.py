"""C16 - scheduled sends carry the schedule's payload; label-source bookkeeping (E3, explicit-state)."""
from __future__ import annotations

import copy
import datetime as dt
import itertools
from typing import Any, Dict, List, Tuple

from mc.common import Acc

UTC = dt.timezone.utc
T1 = dt.datetime(2030, 1, 1, 10, 0, tzinfo=UTC)
T2 = dt.datetime(2030, 1, 1, 11, 30, tzinfo=UTC)

META = {
    "kind": "graph",
    "engine": "E3: bounded-exhaustive enumeration of TaskiqScheduler.on_ready cases + explicit-state BFS over firing orders of the real LabelScheduleSource, against reference models",
    "rule": (
        "(A) TaskiqScheduler.on_ready for every schedule over args x kwargs x labels alphabets x {cron, time} x source "
        "callbacks {inherited defaults, sync, async, plain functions returning a Task} x pre_send {passes, raises ScheduledTaskCancelledError} x kick {ok, "
        "raises}: callbacks are pre_send -> kick -> post_send, or pre_send only when cancelled; a failed kick raises and "
        "skips post_send; the kicked bytes decode to (task name, args, kwargs, labels + schedule_id) with label types "
        "preserved. (B) LabelScheduleSource: every task set of <= 2 own-broker tasks + 1 foreign-broker (shared) task, each "
        "with a schedule list of <= 3 entries over {cron, time T1, time T2, entry without cron/time, cron entry with "
        "labels/args, time T1 with args, time T2 with a dataclass and a pydantic model as arguments}; BFS over every order of firing the listed one-shot entries; state = all schedule "
        "lists. Reference: listing = declared entries having cron or time on own-broker tasks, in order, with the entry's "
        "payload; firing a one-shot removes the first entry of that task with that time and nothing else; firing a cron entry "
        "removes nothing. states/transitions are those of the BFS in (B) plus one state per on_ready case in (A)."
        " Entry lists of one task: all lists of 3 over {t1, t2, cron} (equal times adjacent, apart, all three); thorough: lists of 4 with at least two equal times."
        " One entry declares its positional arguments as a tuple."
        " Two entries within the same second (microsecond-different times)."
    ),
    "assumptions": ["tasks are registered on fresh brokers per case; the global shared-task registry is restored after each case"],
    "required_counters": ["on_ready_cases", "label_source_task_sets", "firings"],
    "bounds": {"quick": {"entries_per_task": 2, "tasks": "<=2 own + 1 foreign"}, "thorough": {"entries_per_task": 3, "tasks": "<=2 own + 1 foreign"}},
}

ARGS = [[], [1], ["a", None], [[1, 2], {"k": 1.5}]]
KWARGS = [{}, {"x": 1}, {"y": [1], "z": None}]
LABELS = [{}, {"l": "v"}, {"n": 5, "f": 1.5, "b": True, "raw": b"\x00\x01"}]

ENTRY_ALPHA: Dict[str, Dict[str, Any]] = {
    "cron": {"cron": "*/5 * * * *"},
    "t1": {"time": T1},
    "t2": {"time": T2},
    "none": {"args": [9]},
    "cronL": {"cron": "0 0 * * *", "labels": {"el": "x"}, "args": [1], "kwargs": {"k": 2}, "cron_offset": "Europe/Berlin"},
    "t1A": {"time": T1, "args": [5], "labels": {"el": 1}},
    "t2D": {"time": T2, "args": ["@dataclass"], "kwargs": {"m": "@model"}},  # declared with a dataclass / pydantic model argument
    "t1T": {"time": T1, "args": (7, "x"), "kwargs": {"k": 3}},  # positional arguments declared as a tuple
    "t1N": {"time": T1.replace(tzinfo=None)},  # naive time with the wall clock of the aware t1
    "t1u": {"time": T1 + dt.timedelta(microseconds=250_000)},  # two times within one second of t1
    "t1v": {"time": T1 + dt.timedelta(microseconds=750_000)},
}


# --------------------------------------------------------------------------------- part A

def on_ready_cases() -> List[Tuple[Any, ...]]:
    return list(itertools.product(range(len(ARGS)), range(len(KWARGS)), range(len(LABELS)), ("cron", "time"),
                                  ("default", "sync", "async", "future"), ("pass", "cancel"), ("ok", "raise")))


def run_on_ready(cases: List[Tuple[Any, ...]], acc: Acc) -> None:
    from taskiq.abc.broker import AsyncBroker
    from taskiq.abc.schedule_source import ScheduleSource
    from taskiq.exceptions import ScheduledTaskCancelledError, SendTaskError
    from taskiq.scheduler.scheduled_task import ScheduledTask
    from taskiq.scheduler.scheduler import TaskiqScheduler
    from mc.vloop import run_sync

    for (ai, ki, li, kind, cb, pre, kick) in cases:
        log: List[Any] = []

        class B(AsyncBroker):
            async def kick(self, message: Any) -> None:
                log.append(("kick", message))
                if kick == "raise":
                    raise RuntimeError("down")

            async def listen(self):  # pragma: no cover
                yield b""

        b = B()

        if cb == "default":
            class Src(ScheduleSource):
                async def get_schedules(self) -> List[Any]:
                    return []
        elif cb == "sync":
            class Src(ScheduleSource):  # type: ignore[no-redef]
                async def get_schedules(self) -> List[Any]:
                    return []

                def pre_send(self, task: Any) -> None:
                    log.append(("pre_send", task.schedule_id))
                    if pre == "cancel":
                        raise ScheduledTaskCancelledError()

                def post_send(self, task: Any) -> None:
                    log.append(("post_send", task.schedule_id))
        elif cb == "future":
            import asyncio

            class Src(ScheduleSource):  # type: ignore[no-redef]
                """plain functions returning a Task (an awaitable that is not a coroutine)"""

                async def get_schedules(self) -> List[Any]:
                    return []

                def pre_send(self, task: Any) -> Any:
                    async def body() -> None:
                        await asyncio.sleep(0)
                        log.append(("pre_send", task.schedule_id))
                        if pre == "cancel":
                            raise ScheduledTaskCancelledError()

                    return asyncio.ensure_future(body())

                def post_send(self, task: Any) -> Any:
                    async def body() -> None:
                        await asyncio.sleep(0)
                        log.append(("post_send", task.schedule_id))

                    return asyncio.ensure_future(body())
        else:
            class Src(ScheduleSource):  # type: ignore[no-redef]
                async def get_schedules(self) -> List[Any]:
                    return []

                async def pre_send(self, task: Any) -> None:  # type: ignore[override]
                    log.append(("pre_send", task.schedule_id))
                    if pre == "cancel":
                        raise ScheduledTaskCancelledError()

                async def post_send(self, task: Any) -> None:  # type: ignore[override]
                    log.append(("post_send", task.schedule_id))

        src = Src()
        labels = copy.deepcopy(LABELS[li])
        st = ScheduledTask(task_name="c16:task", labels=labels, args=copy.deepcopy(ARGS[ai]), kwargs=copy.deepcopy(KWARGS[ki]),
                           schedule_id="sid-1", **({"cron": "* * * * *"} if kind == "cron" else {"time": T1}))
        sched = TaskiqScheduler(b, [src])
        err = None
        try:
            run_sync(sched.on_ready(src, st))
        except BaseException as exc:
            err = exc
        acc.paths += 1
        acc.states += 1
        acc.transitions += 1
        acc.count("on_ready_cases")
        desc = {"args": ARGS[ai], "kwargs": KWARGS[ki], "labels": LABELS[li], "kind": kind, "callbacks": cb, "pre_send": pre, "kick": kick}
        cancelled = pre == "cancel" and cb != "default"
        ref: List[str] = []
        if cb != "default":
            ref.append("pre_send")
        if not cancelled:
            ref.append("kick")
            if kick == "ok" and cb != "default":
                ref.append("post_send")
        got = [e[0] for e in log]
        acc.outcome(("on_ready", tuple(ref), kick, cancelled))
        rp = {"on_ready": [ai, ki, li, kind, cb, pre, kick]}
        if got != ref:
            acc.violation("on-ready-callback-sequence", f"callbacks {got} != reference {ref} for {desc}", rp)
            continue
        if not cancelled and kick == "raise":
            if not isinstance(err, SendTaskError):
                acc.violation("on-ready-failed-kick-swallowed", f"failed kick surfaced as {err!r} for {desc}", rp)
            continue
        if err is not None:
            acc.violation("on-ready-raised", f"on_ready raised {err!r} for {desc}", rp)
            continue
        if not cancelled:
            bm = [e[1] for e in log if e[0] == "kick"][0]
            tm = b.formatter.loads(bm.message)
            tm.parse_labels()
            want_labels = dict(LABELS[li], schedule_id="sid-1")
            same_types = all(type(tm.labels.get(k)) is type(v) for k, v in want_labels.items())
            if tm.task_name != "c16:task" or tm.args != ARGS[ai] or tm.kwargs != KWARGS[ki] or tm.labels != want_labels or not same_types or bm.task_name != "c16:task":
                acc.violation(
                    "on-ready-payload",
                    f"sent message (name={tm.task_name}, args={tm.args}, kwargs={tm.kwargs}, labels={tm.labels}) differs from the schedule {desc} + schedule_id",
                    rp,
                )
        if acc.counters["on_ready_cases"] % 301 == 1:
            acc.sample({"on_ready_case": desc, "callbacks_observed": got})


# --------------------------------------------------------------------------------- part B

def task_sets(tier: str) -> List[Tuple[Tuple[str, ...], ...]]:
    k = 2 if tier == "quick" else 3
    names = list(ENTRY_ALPHA)
    lists: List[Tuple[str, ...]] = [()]
    for n in range(1, k + 1):
        lists += list(itertools.product(names, repeat=n))
    if tier == "quick":
        lists += [("t1A", "t1", "t1"), ("t2", "t1", "t1A"), ("none", "t1", "cronL"), ("t1T", "t2", "t1T")]
        lists += list(itertools.product(("t1", "t2", "cron"), repeat=3))  # equal times apart, adjacent, all three
    else:
        lists += [l for l in itertools.product(("t1", "t2", "cron"), repeat=4) if l.count("t1") >= 2]
    out: List[Tuple[Tuple[str, ...], ...]] = []
    for l1 in lists:
        out.append((l1,))
    # two tasks in one source: lists over the seven basic entry kinds (the variants t1T / t1N / t1u / t1v only
    # differ from them in how the entry itself is matched, which the one-task lists cover)
    core = set(list(ENTRY_ALPHA)[:7])
    small = [l for l in lists if len(l) <= 2 and set(l) <= core]
    for l1 in small:
        for l2 in small:
            out.append((l1, l2))
    return out


@__import__("dataclasses").dataclass
class _ArgDC:
    a: int = 1
    b: str = "x"


class _ArgModel(__import__("pydantic").BaseModel):
    n: int = 2


def _entries(names: Tuple[str, ...]) -> List[Dict[str, Any]]:
    out = [copy.deepcopy(ENTRY_ALPHA[n]) for n in names]
    for e in out:
        if e.get("args") == ["@dataclass"]:
            e["args"] = [_ArgDC()]
            e["kwargs"] = {"m": _ArgModel()}
    return out


def run_label_source(sets: List[Tuple[Tuple[str, ...], ...]], acc: Acc) -> None:
    from taskiq.abc.broker import AsyncBroker
    from taskiq.brokers.shared_broker import AsyncSharedBroker
    from taskiq.schedule_sources import LabelScheduleSource
    from mc.vloop import run_sync

    for ts in sets:
        acc.count("label_source_task_sets")
        saved_global = dict(AsyncBroker.global_task_registry)
        try:
            _explore_label_source(ts, acc, AsyncBroker, AsyncSharedBroker, LabelScheduleSource, run_sync)
        finally:
            AsyncBroker.global_task_registry.clear()
            AsyncBroker.global_task_registry.update(saved_global)


def _build_ls(ts: Any, fired: List[Tuple[int, int]], AsyncBroker: Any, AsyncSharedBroker: Any, LabelScheduleSource: Any, run_sync: Any) -> Any:
    class B(AsyncBroker):
        async def kick(self, message: Any) -> None:
            pass

        async def listen(self):  # pragma: no cover
            yield b""

    b = B()
    shared = AsyncSharedBroker()
    tasks = []
    for i, names in enumerate(ts):
        async def fn(*a: Any, **k: Any) -> None:
            return None
        fn.__module__ = "mc.props.c16"
        fn.__name__ = f"own{i}"
        tasks.append(b.register_task(fn, task_name=f"own:{i}", schedule=_entries(names), tl=f"task{i}"))

    async def ffn() -> None:
        return None
    ffn.__module__ = "mc.props.c16"
    shared.register_task(ffn, task_name="foreign:0", schedule=_entries(("cron", "t1")))
    src = LabelScheduleSource(b)
    return b, src, tasks


def _ref_listing(ref_lists: List[List[Dict[str, Any]]]) -> List[Tuple[Any, ...]]:
    out = []
    for i, entries in enumerate(ref_lists):
        for e in entries:
            if "cron" not in e and "time" not in e:
                continue
            out.append((f"own:{i}", e.get("cron"), e.get("time"), list(e.get("args", [])), e.get("kwargs", {}), e.get("cron_offset"),
                        tuple(sorted((e.get("labels") or {}).items(), key=repr)), f"task{i}"))
    return out


def _explore_label_source(ts: Any, acc: Acc, AsyncBroker: Any, AsyncSharedBroker: Any, LabelScheduleSource: Any, run_sync: Any) -> None:
    """BFS over firing sequences; each sequence is replayed on freshly registered tasks."""
    seen = set()
    frontier: List[List[int]] = [[]]  # a firing = index into the *current* listing
    while frontier:
        nxt = []
        for seq in frontier:
            b, src, tasks = _build_ls(ts, [], AsyncBroker, AsyncSharedBroker, LabelScheduleSource, run_sync)
            ref = [_entries(names) for names in ts]
            ok = True
            try:
                listing = run_sync(src.get_schedules())
            except Exception as exc:
                acc.violation("label-source-listing-raised", f"task set {ts}: get_schedules raised {type(exc).__name__}: {exc}", {"label_source": [list(map(list, ts)), seq]})
                continue
            for step in seq + [None]:
                # compare listing with the reference model
                got = [(s.task_name, s.cron, s.time, s.args, s.kwargs, s.cron_offset,
                        tuple(sorted(((k, v) for k, v in s.labels.items() if k not in ("schedule", "tl")), key=repr)), s.labels.get("tl")) for s in listing]
                want = _ref_listing(ref)
                if got != want:
                    acc.violation("label-source-listing", f"task set {ts}, after firings {seq}: listed {got}, reference {want}", {"label_source": [list(map(list, ts)), seq]})
                    ok = False
                    break
                if step is None:
                    break
                if step >= len(listing):
                    ok = False
                    break
                fired = listing[step]
                before = [copy.deepcopy(t.labels.get("schedule", [])) for t in tasks]
                try:
                    r = src.post_send(fired)
                    if hasattr(r, "__await__"):
                        run_sync(r)
                except Exception as exc:
                    acc.violation(
                        "label-source-post-send-raised",
                        f"task set {ts}: post_send for {fired.task_name} time={fired.time} cron={fired.cron} raised {type(exc).__name__}: {exc}",
                        {"label_source": [list(map(list, ts)), seq]},
                    )
                    ok = False
                    break
                acc.transitions += 1
                acc.count("firings")
                # reference: remove first entry of that task with that time, nothing else
                ti = int(fired.task_name.split(":")[1])
                if fired.cron is None and fired.time is not None:
                    for j, e in enumerate(ref[ti]):
                        if e.get("time") == fired.time:
                            ref[ti].pop(j)
                            break
                after = [t.labels.get("schedule", []) for t in tasks]
                norm = lambda lst: [[{k: v for k, v in e.items() if k != "labels"} for e in l] for l in lst]  # noqa: E731
                if norm(after) != norm(ref):
                    acc.violation(
                        "label-source-removal",
                        f"task set {ts}: after firing {('cron ' + str(fired.cron)) if fired.cron else ('time ' + str(fired.time))} of {fired.task_name} "
                        f"the schedule lists are {norm(after)}, reference {norm(ref)} (before: {norm(before)})",
                        {"label_source": [list(map(list, ts)), seq]},
                    )
                    ok = False
                    break
                try:
                    listing = run_sync(src.get_schedules())
                except Exception as exc:
                    acc.violation("label-source-listing-raised", f"task set {ts}: get_schedules raised {type(exc).__name__}: {exc}", {"label_source": [list(map(list, ts)), seq]})
                    ok = False
                    break
            acc.paths += 1
            if not ok:
                continue
            state = repr([[sorted(e.items(), key=repr) for e in l] for l in ref])
            if state in seen and seq:
                continue
            seen.add(state)
            acc.states += 1
            acc.outcome(("label_state", len(listing), sum(1 for s in listing if s.time is not None)))
            if acc.states % 211 == 1:
                acc.sample({"label_source_tasks": [list(n) for n in ts], "firings_so_far": seq, "listing_size": len(listing)})
            for k in range(len(listing)):
                nxt.append(seq + [k])
        frontier = nxt


def shards(tier: str, seed: int) -> List[Any]:
    out: List[Any] = []
    oc = on_ready_cases()
    out += [("on_ready", tier, i, min(i + 300, len(oc))) for i in range(0, len(oc), 300)]
    ts = task_sets(tier)
    step = 40 if tier == "quick" else 60
    out += [("label", tier, i, min(i + step, len(ts))) for i in range(0, len(ts), step)]
    return out


def run_shard(shard: Any) -> Dict[str, Any]:
    acc = Acc()
    kind, tier, lo, hi = shard
    if kind == "on_ready":
        run_on_ready(on_ready_cases()[lo:hi], acc)
    else:
        run_label_source(task_sets(tier)[lo:hi], acc)
    return acc.as_dict()


def replay(obj: Dict[str, Any]) -> int:
    acc = Acc()
    if "on_ready" in obj:
        run_on_ready([tuple(obj["on_ready"])], acc)
    else:
        ts = tuple(tuple(x) for x in obj["label_source"][0])
        run_label_source([ts], acc)
    for k, v in acc.violations.items():
        print("oracle:", k, "-", v["message"])
    return 1 if acc.violations else 0
