"""C05 - graceful shutdown drains accepted work and terminates (E1)."""
from __future__ import annotations

import asyncio
import itertools
from typing import Any, Dict, List

from mc.common import Acc
from mc.recv_driver import replay as _replay
from mc.recv_driver import mark_stateless, run_scenarios
from mc.recv_world import RecvWorld

POLL_US = 300_000
CAP_US = 2_000_000

META = {
    "kind": "graph",
    "engine": "E1 explicit-state exploration of Receiver.listen() on a hand-stepped event loop (virtual clock)",
    "rule": (
        "scenarios: (A,P,N,W) x finite/infinite stream x message lists over {short = gated body, "
        "never-ending, ackable with gated async ack, raising, malformed, short task whose post_execute hook raises}; the stop request is an enabled choice in every state "
        "(level 1: also in the same loop iteration as any other event). Oracles: (i) at most one message taken "
        "after a stop request, at most N overall when max_tasks_to_execute=N; (ii) when listen() returns every "
        "taken message has finished including its ack, unless wait_tasks_timeout W is set and >= W has passed "
        "since shutdown began; (iii) promptness on the virtual clock: once shutdown has begun and every taken "
        "message has finished, listen() returns within one 0.3 s poll period; with W set it returns within "
        "0.3 s + W of the beginning of shutdown whatever the tasks do; (iv) a state with no enabled event in "
        "which listen() has not returned is legal only while a never-ending task runs and W is None. "
        "distinct_nontrivial = distinct terminal per-message logs."
        " Fault-overlap family (mc/fault_overlap.py): message X suffers one fault out of {pre_execute/post_execute/post_save/on_error hook, sync or async ack, result backend} x {RuntimeError, CancelledError, TimeoutError}, backend failing once, body raise/CancelledError/timeout/no-result, malformed/unknown message, broker stream error, while the healthy message Y has suspension points before, inside and after its function and the stop request may arrive at any point; for (A,N,W) configurations so that X's processing can end, in whatever way, during the drain while Y is still running; all oracles apply unchanged."
        " Three (thorough: four) accepted tasks still running when the drain starts, finishing at distinct clock ticks inside the wait_tasks_timeout window."
    ),
    "assumptions": [
        "asyncio semantics as implemented by BaseEventLoop; timers fire exactly at their deadline on the virtual clock; untimed events happen at timer deadlines or at the harness clock ticks (0.15 s steps) of the tick scenarios",
        "shutdown begins at the stop request, at the N-th message taken, or when a finite stream ends",
    ],
    "required_counters": ["wiring_cases", "scenarios", "terminal_states"],
    "bounds": {
        "quick": {"A": [None, 1, 2], "P": [0, 1], "N": [None, 1, 2], "W": [None, 0.1, 0.3, 0.5], "n_max": 3, "L1": "n<=2"},
        "thorough": {"A": [None, 1, 2, 3], "P": [0, 1, 2], "N": [None, 1, 2, 3], "W": [None, 0.1, 0.3, 0.5], "n_max": 4, "L1": "n<=3", "L2": "n<=2"},
    },
}

KINDS = {
    "s": {},  # short (gated) task
    "n": {"outcome": "never"},
    "a": {"ack": "async", "gates": ["ack"]},  # short task, ack completes later
    "r": {"outcome": "raise"},
    "m": {"kind": "malformed"},
    "f": {"ack": "future", "gates": ["ack"]},  # ack callable returns a Task (not a coroutine) that completes later
    "h": {},  # short task whose post_execute hook raises: its callback task ends with an exception
}


class C05World(RecvWorld):
    def on_event(self, ev: Any) -> None:
        super().on_event(ev)
        kind = ev[0]
        if kind == "TAKEN":
            if self.stop_requested:
                after = [k for k, t in zip(self.taken, self._taken_after_stop_flags()) if t]
                if len(after) > 1:
                    self.flag("C05:taken-after-stop", f"{len(after)} messages {after} taken after the stop request")
            if self.N and len(self.taken) > self.N:
                self.flag(
                    "C05:more-than-max-tasks",
                    f"{len(self.taken)} messages taken with max_tasks_to_execute={self.N}",
                )
        elif kind == "RET":
            unfinished = [k for k in self.taken if k not in self.cb_done]
            now = self.loop._vt_us
            if unfinished:
                w_ok = self.W is not None and self.t_sd is not None and now - self.t_sd >= round(self.W * 1e6)
                if not w_ok:
                    self.flag(
                        "C05:returned-with-unfinished-work",
                        f"listen() returned at t={now/1e6:.3f} while messages {unfinished} were still in processing "
                        f"(W={self.W}, shutdown began {None if self.t_sd is None else self.t_sd/1e6})",
                    )
            inflight = self.acks_in_flight()
            if inflight and not (self.W is not None and self.t_sd is not None and now - self.t_sd >= round(self.W * 1e6)):
                self.flag(
                    "C05:returned-with-ack-in-flight",
                    f"listen() returned at t={now/1e6:.3f} while the acknowledgement of messages {inflight} had been started but not completed",
                )
            if self.t_sd is None:
                self.flag("C05:returned-without-shutdown", "listen() returned although no shutdown condition occurred")
            else:
                self._check_prompt(now, at_ret=True)

    def _taken_after_stop_flags(self) -> List[bool]:
        flags = []
        stop_seen = False
        it = iter(self.taken)
        for ev in self.log:
            if ev[0] == "STOP":
                stop_seen = True
            elif ev[0] == "TAKEN":
                flags.append(stop_seen)
        return flags

    def _deadline(self) -> Any:
        """Latest instant by which listen() must have returned, or None if not yet determined."""
        if self.t_sd is None:
            return None
        unfinished = [k for k in self.taken if k not in self.cb_done]
        cands = []
        if not unfinished and not self.cb_open:
            base = max(self.t_sd, self.t_last_finish or 0)
            cands.append(base + POLL_US)
        if self.W is not None:
            cands.append(self.t_sd + POLL_US + round(self.W * 1e6))
        return min(cands) if cands else None

    def _check_prompt(self, now: int, at_ret: bool) -> None:
        dl = self._deadline()
        if dl is None:
            return
        if now > dl:
            self.flag(
                self._classify_late(),
                f"shutdown began at t={self.t_sd/1e6:.3f} ({self.sd_cause}), last message finished at "
                f"{None if self.t_last_finish is None else self.t_last_finish/1e6}, W={self.W}: listen() "
                f"{'returned' if at_ret else 'has still not returned'} at t={now/1e6:.3f}, deadline {dl/1e6:.3f}; "
                f"in processing {self.cb_open}",
            )

    def _runner_parked_on_slot(self) -> bool:
        sem = self.receiver.sem
        if sem is None or not (sem._waiters and any(not w.done() for w in sem._waiters)):
            return False
        return self.A is not None and len(self.cb_open) >= self.A

    d2_seen = False

    def after_step(self) -> None:
        super().after_step()
        if self.t_sd is not None and self.W is not None and not self.d2_seen and self._runner_parked_on_slot():
            self.d2_seen = True

    def _classify_late(self) -> str:
        # D2: the runner has to own an execution slot before it can see the end-of-stream
        # sentinel (and before it hands the prefetcher the permit it needs to notice the
        # shutdown), so while every slot is busy wait_tasks_timeout never starts.
        if self.W is not None and (self.d2_seen or (self.cb_open and self._runner_parked_on_slot())):
            return "C05:D2-wait-tasks-timeout-not-started-while-all-slots-busy"
        return "C05:late-return"

    def check_quiescent(self) -> None:
        super().check_quiescent()
        if not self.ret:
            self._check_prompt(self.loop._vt_us, at_ret=False)

    def on_stuck(self, running_never: List[int]) -> None:
        if self.t_sd is None:
            if self.sc.get("stop", True):
                return  # cannot happen: stop is enabled
            return
        if self.W is None and running_never:
            return  # legitimately waiting for a never-ending task
        self.flag(
            self._classify_late() if self.W is not None else "C05:stuck",
            f"no event can occur any more, listen() has not returned; shutdown began ({self.sd_cause}), in processing "
            f"{self.cb_open}, W={self.W}",
        )

    def extra_monitor_state(self) -> Any:
        now = self.loop._vt_us
        return (
            None if self.t_sd is None else min(now - self.t_sd, CAP_US),
            None if (self.t_sd is None or self.t_last_finish is None) else min(now - self.t_last_finish, CAP_US),
            sum(self._taken_after_stop_flags()),
            self.d2_seen,
        )


def _msgs(word: str) -> List[Dict[str, Any]]:
    return [dict(KINDS[c]) for c in word]


def _with_hooks(sc: Dict[str, Any], word: str) -> Dict[str, Any]:
    idx = [i for i, c in enumerate(word) if c == "h"]
    if idx:
        sc["mws"] = [{"hooks": {"post_execute": "sync"}, "fail": {"post_execute": idx}}]
    return sc


def scenarios(tier: str) -> List[Dict[str, Any]]:
    out: List[Dict[str, Any]] = []
    if tier == "quick":
        As, Ps, Ns, Ws = [None, 1, 2], [0, 1], [None, 1, 2], [None, 0.1, 0.3, 0.5]
        words = ["s", "n", "a", "ss", "sn", "ns", "nn", "as", "sa", "rs", "ms", "hn", "nh", "hs", "f", "fs", "sf", "ssss", "ssn", "nss", "sns", "nns", "sss"]
        l1_words, l1_cfg = ["s", "n", "sn", "ns"], [(a, p, n, w) for a in (1, 2) for p in (0,) for n in (None, 1) for w in (None, 0.3)]
        l2_words, l2_cfg = [], []
    else:
        As, Ps, Ns, Ws = [None, 1, 2, 3], [0, 1, 2], [None, 1, 2, 3], [None, 0.1, 0.3, 0.5]
        words = ["".join(w) for k in (1, 2, 3) for w in itertools.product("sna", repeat=k)] + ["rs", "ms", "sm", "hn", "nh", "hs", "sh", "hsn", "nhs", "f", "fs", "sf", "fn", "ffs", "ssss", "snsn", "nnss", "ssnn", "asna"]
        l1_words = ["s", "n", "a", "sn", "ns", "ss", "nn", "sa", "ssn", "nss"]
        l1_cfg = [(a, p, n, w) for a in (None, 1, 2) for p in (0, 1) for n in (None, 1, 2) for w in (None, 0.1, 0.3)]
        l2_words, l2_cfg = ["s", "n", "sn", "ns"], [(a, p, n, w) for a in (1, 2) for p in (0, 1) for n in (None, 1) for w in (None, 0.3)]
    for w_ in words:
        for a, p, n, w, stream in itertools.product(As, Ps, Ns, Ws, ("infinite", "finite")):
            if w is not None and "n" not in w_ and len(w_) > 1 and stream == "finite" and tier == "quick":
                continue
            out.append(_with_hooks({"A": a, "P": p, "N": n, "W": w, "stream": stream, "stop": True, "msgs": _msgs(w_), "level": 0}, w_))
            if w is not None and w >= 0.3 and "n" in w_ and ("s" in w_ or "a" in w_) and a != 1 and p == 0 and n is None and stream == "infinite" and (tier == "thorough" or len(w_) == 2):
                # clock ticks between the code's own timers: completions can fall inside the drain window
                out.append({"A": a, "P": p, "N": n, "W": w, "stream": stream, "stop": True, "msgs": _msgs(w_), "level": 0,
                            "ticks": [150_000, 450_000, 600_000, 750_000, 900_000]})
    # three accepted tasks still running when the drain starts, finishing at distinct instants inside the
    # wait_tasks_timeout window (clock ticks between the code's own timers)
    for w_ in (("sss",) if tier == "quick" else ("ssn", "sss", "sssn", "ssss")):
        for w in ((0.5,) if tier == "quick" else (0.3, 0.5)):
            few = tier == "quick" or len(w_) == 4
            out.append({"A": None, "P": 0, "N": None, "W": w, "stream": "infinite", "stop": True, "msgs": _msgs(w_), "level": 0,
                        "ticks": [450_000, 600_000, 750_000] if few else [150_000, 450_000, 600_000, 750_000, 900_000],
                        "max_states": 400000, "time_budget": 1500.0})
    for w_ in l1_words:
        for (a, p, n, w) in l1_cfg:
            out.append({"A": a, "P": p, "N": n, "W": w, "stream": "infinite", "stop": True, "msgs": _msgs(w_), "level": 1})
    for w_ in l2_words:
        for (a, p, n, w) in l2_cfg:
            out.append({"A": a, "P": p, "N": n, "W": w, "stream": "infinite", "stop": True, "msgs": _msgs(w_), "level": 2})
    out += fault_family(tier)
    return out


def fault_family(tier: str) -> List[Dict[str, Any]]:
    """One fault in message X (a hook, the ack or the result backend raising RuntimeError / CancelledError /
    TimeoutError, body outcomes, junk, a broker stream error) while message Y is in flight and the stop
    request (or the max-tasks recycle) arrives at any point - in particular so that X's processing ends,
    in whatever way, during the drain while Y is still running (mc/fault_overlap.py). All of C05's oracles
    apply unchanged: no return while an accepted message is in processing, prompt return afterwards."""
    from mc import fault_overlap as fo

    out = []
    cfgs = [(3, None, None), (2, None, None), (3, 2, None)] if tier == "quick" else [(a, n, w) for a in (None, 2, 3) for n in (None, 2) for w in (None, 0.3)]
    for a, n, w in cfgs:
        out += fo.family(tier, a=a, n=n, w=w, orders=(True, False) if tier == "thorough" else (True,))
    return out


def shards(tier: str, seed: int) -> List[Any]:
    return _shards(tier, seed) + [[{"wiring": "C05"}]]


def _shards(tier: str, seed: int) -> List[Any]:
    scs = scenarios(tier)
    if tier == "thorough":
        mark_stateless(scs, 6, 8)
    scs.sort(key=lambda s: (-s["level"], -len(s["msgs"])))
    big = [s for s in scs if s["level"] > 0]
    small = [s for s in scs if s["level"] == 0]
    return [[s] for s in big] + [small[i : i + 12] for i in range(0, len(small), 12)]


def run_shard(shard: List[Dict[str, Any]]) -> Dict[str, Any]:
    if shard and shard[0].get("wiring"):
        from mc.cli_wiring import check_worker_wiring

        acc = Acc()
        check_worker_wiring("C05", acc)
        return acc.as_dict()
    return run_scenarios("C05", shard, C05World).as_dict()


def replay(obj: Dict[str, Any]) -> int:
    return _replay(obj, C05World)
