"""C13 - a cron schedule is due exactly in the minutes its expression matches (E3)."""
from __future__ import annotations

import datetime as dt
from typing import Any, Dict, List, Tuple

from mc import cronref
from mc.common import Acc

UTC = dt.timezone.utc

DAYS_QUICK = [
    (2024, 3, 31),   # Europe/Berlin DST start
    (2024, 11, 3),   # America/New_York DST end
    (2025, 4, 6),    # Australia/Lord_Howe DST end (30 min shift)
    (2024, 12, 31),
    (2024, 2, 29),
    (2025, 7, 16),
    (2024, 10, 5),   # Australia/Adelaide and Lord_Howe DST start: the offset changes at hh:30 UTC, inside a UTC hour
]
DAYS_THOROUGH = DAYS_QUICK + [
    (2024, 3, 10), (2024, 10, 27), (2024, 10, 6), (2025, 1, 1), (2023, 6, 11), (2026, 3, 29), (2027, 11, 7), (2028, 2, 29),
    (2024, 3, 30), (2024, 4, 1), (2024, 11, 2), (2024, 11, 4), (2025, 4, 5), (2025, 4, 7), (2029, 12, 31), (2030, 8, 8),
    (2022, 9, 25), (2021, 1, 31),
]
TD_OFFSETS = [dt.timedelta(hours=26), -dt.timedelta(hours=26), dt.timedelta(hours=5, minutes=30), -dt.timedelta(hours=5, minutes=30),
              dt.timedelta(hours=3), -dt.timedelta(minutes=45)]
ZONES = ["UTC", "Europe/Berlin", "America/New_York", "Asia/Kolkata", "Asia/Kathmandu", "Australia/Lord_Howe", "Pacific/Chatham", "America/St_Johns", "Australia/Adelaide"]
GRAMMAR = [
    "*/15 * * * *", "0-29/2 1-5 * * *", "5,10,50-59 */3 * * 1-5", "0 0 1,15 * 0", "*/7 0-23/5 */2 1-12/3 *",
    "1-3,7,20-40/10 2,14 10-20 * 6", "* * 29 2 *", "59 23 31 12 *", "0 12 * * 0,6", "30 2 * 3 0", "*/5 22-23 * * 5",
    "0,30 0-6 1-7 * 1", "*/2 */2 */2 */2 */2", "15-45 * * 2,3,11,12 *",
]

META = {
    "kind": "inputs",
    "engine": "E3 bounded-exhaustive input enumeration against an independent cron matcher on zoneinfo time",
    "rule": (
        "instants: every minute (1440) of each listed day (DST start/end days of Europe/Berlin, America/New_York, "
        "Australia/Lord_Howe; 31 Dec, 29 Feb, an ordinary day; thorough adds neighbours and other years) at second 0, plus "
        "seconds 30 and 59.999999 for the exact expression and its minute/hour neighbours; offsets: none, 'UTC', six timedeltas in +-26 h incl. +-5:30 and "
        "-0:45, IANA zones incl. 30/45-minute ones. For every (instant, offset): the exact five-field expression of the "
        "expected local minute must be due, each single-field neighbour (minute+-1, hour+-1, other day, other month, other "
        "weekday) must not be due, the day-of-month/day-of-week either-rule pair is checked, and 14 grammar expressions "
        "(lists, ranges, steps) are evaluated and compared with the reference matcher. Expected local time comes from "
        "zoneinfo / plain timedelta arithmetic (not pytz). Instants where zoneinfo and pytz disagree on the offset are "
        "excluded and counted. distinct_nontrivial = distinct (expression shape, offset kind, due?) classes."
        " Zones whose DST switch falls inside a UTC hour (Australia/Adelaide, Lord_Howe in October, America/St_Johns) on their transition days."
        " Schedules carrying a `time` (past, within the minute, a day ahead) besides the cron expression: the expression alone decides."
    ),
    "assumptions": [
        "the wall clock is the scripted one (run.datetime patched harness-side); shards run with the process' local zone (TZ) set to UTC, Asia/Tokyo or America/New_York and with naive now() at UTC or UTC+5:30: none of it may matter",
        "the system tzdata (zoneinfo) is the reference for zone offsets; random instants of the quantifier are sampling and not performed",
    ],
    "required_counters": ["due", "not_due", "zone_evals", "td_evals", "cron_and_time_evals"],
    "bounds": {"quick": {"days": len(DAYS_QUICK)}, "thorough": {"days": len(DAYS_THOROUGH)}},
}


def offsets() -> List[Tuple[str, Any]]:
    out: List[Tuple[str, Any]] = [("none", None)]
    out += [("td:" + str(td), td) for td in TD_OFFSETS]
    out += [("zone:" + z, z) for z in ZONES]
    return out


def shards(tier: str, seed: int) -> List[Any]:
    days = DAYS_QUICK if tier == "quick" else DAYS_THOROUGH
    out = []
    for d in days:
        for part in range(4):
            out.append({"tier": tier, "day": d, "part": part})
    return out


def _set_process_tz(name: Any) -> None:
    """The operating system's local zone (what naive datetimes mean to astimezone()/mktime)."""
    import os
    import time

    if name is None:
        os.environ.pop("TZ", None)
    else:
        os.environ["TZ"] = name
    time.tzset()


def run_shard(shard: Dict[str, Any]) -> Dict[str, Any]:
    _set_process_tz([None, "Asia/Tokyo", "America/New_York"][shard["part"] % 3])
    try:
        return _run_shard(shard)
    finally:
        _set_process_tz(None)


def _run_shard(shard: Dict[str, Any]) -> Dict[str, Any]:
    from zoneinfo import ZoneInfo

    import pytz
    import taskiq.cli.scheduler.run as run
    from mc import clock
    from taskiq.scheduler.scheduled_task import ScheduledTask

    acc = Acc()
    holder = [None]
    # the process' local zone must not matter: odd parts run with naive now() 5:30 ahead of UTC
    clock.install(lambda: holder[0], local_offset=dt.timedelta(hours=5, minutes=30) if shard["part"] % 2 else None)
    cache: Dict[Any, Any] = {}

    def task(expr: str, okey: str, off: Any) -> Any:
        k = (expr, okey)
        t = cache.get(k)
        if t is None:
            if len(cache) > 20000:
                cache.clear()
            t = ScheduledTask(task_name="t", labels={}, args=[], kwargs={}, cron=expr, cron_offset=off)
            cache[k] = t
        return t

    y, mo, d = shard["day"]
    day0 = dt.datetime(y, mo, d, tzinfo=UTC)
    offs = offsets()
    zis = {z: ZoneInfo(z) for z in ZONES}
    pyz = {z: pytz.timezone(z) for z in ZONES}
    try:
        for minute in range(shard["part"] * 360, (shard["part"] + 1) * 360):
            base = day0 + dt.timedelta(minutes=minute)
            for okey, off in offs:
                if off is None:
                    local = base
                elif isinstance(off, dt.timedelta):
                    local = base + off
                else:
                    local = base.astimezone(zis[off])
                    if local.utcoffset() != base.astimezone(pyz[off]).utcoffset():
                        acc.count("excluded_tzdata_skew")
                        continue
                acc.count("zone_evals" if isinstance(off, str) else "td_evals")
                m, h, dd, mon = local.minute, local.hour, local.day, local.month
                wd = (local.weekday() + 1) % 7
                od = dd % 28 + 1
                cases: List[Tuple[str, bool, str]] = [
                    (f"{m} {h} {dd} {mon} *", True, "exact"),
                    (f"{m} {h} * * {wd}", True, "exact-dow"),
                    (f"{(m + 1) % 60} {h} {dd} {mon} *", False, "minute+1"),
                    (f"{(m - 1) % 60} {h} {dd} {mon} *", False, "minute-1"),
                    (f"{m} {(h + 1) % 24} {dd} {mon} *", False, "hour+1"),
                    (f"{m} {(h - 1) % 24} {dd} {mon} *", False, "hour-1"),
                    (f"{m} {h} {od} {mon} *", False, "other-day"),
                    (f"{m} {h} {dd} {mon % 12 + 1} *", False, "other-month"),
                    (f"{m} {h} * * {(wd + 1) % 7}", False, "other-dow"),
                    (f"{m} {h} {od} * {wd}", True, "either-rule-dow"),
                    (f"{m} {h} {od} * {(wd + 3) % 7}", False, "either-rule-none"),
                ]
                secs = [(0, 0)]
                for expr, want, shape in cases:
                    for s, us in ([(0, 0), (30, 0), (59, 999999)] if shape in ("exact", "minute+1", "minute-1", "hour+1") else secs):
                        holder[0] = base + dt.timedelta(seconds=s, microseconds=us)
                        got = run.get_task_delay(task(expr, okey, off))
                        acc.evaluations += 1
                        ok = (got == 0 and got is not None and want) or (got is None and not want)
                        acc.outcome((shape, okey.split(":")[0], want))
                        acc.count("due" if want else "not_due")
                        if not ok:
                            acc.violation(
                                f"{'missed' if want else 'spurious'}-{shape}-{okey.split(':')[0]}",
                                f"now={holder[0].isoformat()} offset={okey} local={local.isoformat()} expr={expr!r}: get_task_delay={got!r}, expected {'0 (due)' if want else 'None (not due)'}",
                                {"now": holder[0].isoformat(), "offset": okey, "expr": expr, "want": want},
                            )
                if minute % 60 in (7, 38):
                    # a schedule that carries a `time` as well: the cron expression alone decides
                    holder[0] = base
                    for expr, want, shape in cases[:4]:
                        for t_off in (-3600, 30, 86400):
                            st = ScheduledTask(task_name="t", labels={}, args=[], kwargs={}, cron=expr, cron_offset=off,
                                               time=base + dt.timedelta(seconds=t_off))
                            got = run.get_task_delay(st)
                            acc.evaluations += 1
                            acc.count("cron_and_time_evals")
                            if not ((got == 0 and got is not None and want) or (got is None and not want)):
                                acc.violation(
                                    f"{'missed' if want else 'spurious'}-with-time-{okey.split(':')[0]}",
                                    f"now={base.isoformat()} offset={okey} expr={expr!r} time=now{t_off:+d}s: get_task_delay={got!r}, the cron expression says {'due' if want else 'not due'}",
                                    {"now": base.isoformat(), "offset": okey, "expr": expr, "want": want, "time_offset_s": t_off},
                                )
                if okey in ("none", "td:5:30:00", "zone:Asia/Kathmandu", "zone:America/New_York", "zone:Australia/Lord_Howe", "td:-1 day, 22:00:00"):
                    holder[0] = base
                    for expr in GRAMMAR:
                        want = cronref.matches(expr, local)
                        got = run.get_task_delay(task(expr, okey, off))
                        acc.evaluations += 1
                        acc.outcome(("grammar", expr, want))
                        acc.count("due" if want else "not_due")
                        if (got == 0) != want or (got not in (0, None)):
                            acc.violation(
                                f"grammar-{'missed' if want else 'spurious'}",
                                f"now={base.isoformat()} offset={okey} local={local.isoformat()} expr={expr!r}: get_task_delay={got!r}, reference says {'due' if want else 'not due'}",
                                {"now": base.isoformat(), "offset": okey, "expr": expr, "want": want},
                            )
                if minute % 397 == 0 and okey.startswith("zone:Australia"):
                    acc.sample({"now": base.isoformat(), "offset": okey, "local": local.isoformat(), "exact_expr": cases[0][0]})
    finally:
        clock.uninstall()
    return acc.as_dict()


def replay(obj: Dict[str, Any]) -> int:
    import taskiq.cli.scheduler.run as run
    from mc import clock
    from taskiq.scheduler.scheduled_task import ScheduledTask

    off = dict(offsets())[obj["offset"]]
    now = dt.datetime.fromisoformat(obj["now"])
    clock.install(lambda: now)
    try:
        extra = {"time": now + dt.timedelta(seconds=obj["time_offset_s"])} if "time_offset_s" in obj else {}
        got = run.get_task_delay(ScheduledTask(task_name="t", labels={}, args=[], kwargs={}, cron=obj["expr"], cron_offset=off, **extra))
    finally:
        clock.uninstall()
    print(f"now={obj['now']} offset={obj['offset']} expr={obj['expr']!r} -> {got!r}; expected {'due' if obj['want'] else 'not due'}")
    return 0 if ((got == 0) == obj["want"]) else 1
