"""C06 - concurrent executions are isolated; results are bound to their own task id (E1)."""
from __future__ import annotations

import itertools
from typing import Any, Dict, List

from mc.common import Acc
from mc.dep_world import DepWorld
from mc.recv_driver import replay as _replay
from mc.recv_driver import mark_stateless, run_scenarios

KINDS = [(st, cache) for st in ("plain", "aplain", "gen", "agen") for cache in (True, False)]

META = {
    "kind": "graph",
    "engine": "E1 explicit-state exploration of Receiver.listen()/callback() with generated dependency graphs",
    "rule": (
        "2 (quick) / 3 (thorough) messages of one task are processed concurrently (A=3); the task takes Context itself (or, in a second family, does not), "
        "an async gated dependency (the suspension point) and a probe dependency from the family {sync fn, async fn "
        "(gated), generator, async generator} x {cached, use_cache=False} x {reads Context itself, has a nested child of "
        "any of those 8 kinds that reads Context} (72 graphs, both parameter orders), plus 32 graphs in which "
        "broker.dependency_overrides replaces the declared probe at run time (by a function with a child of each kind, "
        "or by an un-cached async generator); all orderings of delivery, "
        "dependency, body gates (level 0, level 1 for the single-probe graphs). Oracle at every observation: the task_id, "
        "args and labels a dependency or the task function reads from Context are those of the message being processed by "
        "the callback task that runs it; set_result(id, r) carries the value produced for the message with that id. "
        "distinct_nontrivial = distinct terminal per-message logs."
        " Failing dependencies: a dependency of message 0 raises (always / only at its first resolution) after a suspension point while message 1 enters processing; whatever is resolved for message 0 before, after or again still observes message 0, and an error result is stored under its id."
        " Four messages with at most three in processing (contexts of finished executions must not reach later ones)."
        " Concurrent messages whose `v: Any` keyword arguments are equal but of different type or sign (1/True/1.0, 0/False/-0.0): each function receives its own."
    ),
    "assumptions": [
        "the message a piece of dependency code belongs to is identified by the asyncio task running it (the callback task)",
    ],
    "required_counters": ["scenarios", "observations_checked", "overlapping_resolutions"],
    "bounds": {"quick": {"messages": 2, "graphs": 72, "L1": "8 single-probe graphs"}, "thorough": {"messages": "2 (all) and 3 (single-probe)", "graphs": 72, "L1": "all single-probe graphs, both orders"}},
}


class C06World(DepWorld):
    checked = 0
    overlap = 0

    def metrics(self) -> Dict[str, int]:
        m = super().metrics()
        m["checked"] = self.checked
        m["overlap"] = self.overlap
        return m

    def on_event(self, ev: Any) -> None:
        super().on_event(ev)
        kind = ev[0]
        if kind == "SEEN":
            i, name, seen = ev[1], ev[2], ev[3]
            self.checked += 1
            # was another message's Context created after ours and before this observation?
            if any(k != i for k in self.cb_open):
                self.overlap = 1
            want = (f"m{i}", (i,), f"w{i}")
            if seen != want:
                node = self.sc["deps"]["nodes"].get(name, {})
                unc = self._uncached_path(name)
                key = "C06:D3-uncached-dependency-sees-foreign-context" if unc else "C06:foreign-context"
                self.flag(key, f"{'task function' if name == '<task>' else 'dependency ' + name} of message {i} observed Context of {seen} (expected {want}); in processing {self.cb_open}")
        elif kind == "ARGV":
            i = ev[1]
            sent = self.msgs[i]["kw"]["v"]
            self.checked += 1
            if (ev[2], ev[3]) != (repr(sent), type(sent).__name__):
                self.flag("C06:argument-of-another-message", f"task function of message {i} was sent v={sent!r} ({type(sent).__name__}) and received {ev[2]} ({ev[3]}); in processing {self.cb_open}")
        elif kind == "SAVE_B":
            i = ev[1]
            self.checked += 1
            kinds = [e[0] for e in self.per[i]]
            dep_failed = "OPENFAIL" in kinds and "START" not in kinds  # resolution failed: an error result is due
            if dep_failed:
                if not ev[2][0]:
                    self.flag("C06:result-bound-to-wrong-id", f"result stored under m{i} is {ev[2]} although its dependencies could not be resolved")
            elif self.msgs[i]["outcome"] == "return" and ev[2][2] != repr(f"R{i}"):
                self.flag("C06:result-bound-to-wrong-id", f"result stored under m{i} is {ev[2]} (expected value R{i})")

    def _uncached_path(self, name: str) -> bool:
        nodes = self.sc["deps"]["nodes"]
        if name not in nodes:
            return False
        unc = [n for n, v in nodes.items() if not v.get("cache", True)]
        seen = set()
        stack = list(unc)
        while stack:
            n = stack.pop()
            if n in seen:
                continue
            seen.add(n)
            stack.extend(nodes[n].get("children", []))
        return name in seen


def _node(kind: Any, children: List[str], ctx: bool) -> Dict[str, Any]:
    st, cache = kind
    return {"style": st, "cache": cache, "children": children, "ctx": ctx, "gate": st in ("aplain", "agen")}


def graphs() -> List[Dict[str, Any]]:
    out = []
    for order in (("g", "p"), ("p", "g")):
        for k in KINDS:
            out.append({"roots": list(order), "task_ctx": True, "single": True,
                        "nodes": {"g": {"style": "aplain", "children": [], "gate": True, "cache": True}, "p": _node(k, [], True)}})
        for k, kc in itertools.product(KINDS, KINDS):
            out.append({"roots": list(order), "task_ctx": True, "single": False,
                        "nodes": {"g": {"style": "aplain", "children": [], "gate": True, "cache": True},
                                  "p": _node(k, ["q"], False), "q": _node(kc, [], True)}})
    # the task function itself does not take Context: only the (late-resolved) dependency does
    for order in (("g", "p"), ("p", "g")):
        for k in KINDS:
            out.append({"roots": list(order), "task_ctx": False, "single": True,
                        "nodes": {"g": {"style": "aplain", "children": [], "gate": True, "cache": True}, "p": _node(k, [], True)}})
        for k, kc in itertools.product(KINDS[::2], KINDS):
            out.append({"roots": list(order), "task_ctx": False, "single": False,
                        "nodes": {"g": {"style": "aplain", "children": [], "gate": True, "cache": True},
                                  "p": _node(k, ["q"], False), "q": _node(kc, [], True)}})
    # broker.dependency_overrides: the declared probe is a plain cached function that does not touch
    # Context; its replacement brings in a child of each of the 8 kinds that reads Context
    for order in (("g", "p"), ("p", "g")):
        for kc in KINDS:
            out.append({"roots": list(order), "task_ctx": True, "single": True, "overrides": {"p": "p2"},
                        "nodes": {"g": {"style": "aplain", "children": [], "gate": True, "cache": True},
                                  "p": _node(("plain", True), [], False),
                                  "p2": _node(("plain", True), ["q"], False), "q": _node(kc, [], True)}})
        for k in KINDS:
            out.append({"roots": list(order), "task_ctx": True, "single": False, "overrides": {"p": "p2"},
                        "nodes": {"g": {"style": "aplain", "children": [], "gate": True, "cache": True},
                                  "p": _node(k, [], True), "p2": _node(("agen", False), [], True)}})
    return out


def scenarios(tier: str) -> List[Dict[str, Any]]:
    out = []
    for g in graphs():
        single = g.pop("single")
        nmsg = [2]
        if tier == "thorough" and single:
            nmsg = [2, 3]
        for n in nmsg:
            msgs = [{"task": "dep", "body": "immediate", "value": f"R{i}", "labels": {"who": f"w{i}"}} for i in range(n)]
            lv = [0]
            if single and n == 2 and (tier == "thorough" or g["roots"][0] == "g"):
                lv = [0, 1]
            for level in lv:
                out.append({"A": 3, "P": 1, "N": None, "stream": "finite", "stop": False, "level": level,
                            "deps": g, "msgs": msgs})
            if single and n == 2 and "overrides" not in g:
                # suspension points *before* run_task: an async pre_execute hook and an async when_received ack
                amsgs = [dict(m, ack="async", gates=["ack"]) for m in msgs]
                out.append({"A": 3, "P": 1, "N": None, "stream": "finite", "stop": False, "level": 0, "deps": g, "msgs": amsgs,
                            "ack_type": "when_received", "mws": [{"hooks": {"pre_execute": "gated", "post_execute": "gated"}}]})
    # concurrent messages whose `v: Any` arguments are equal as values but not as objects / types
    # (1, True, 1.0; 0, False, -0.0): each function receives what its own message carried
    gq = {"roots": ["g"], "task_ctx": True, "nodes": {"g": {"style": "aplain", "children": [], "gate": True, "cache": True}}}
    for vals in ((1, True, 1.0), (True, 1), (0.0, False, 0), (-0.0, 0.0), ("1", 1)):
        msgs = [{"task": "dep", "body": "immediate", "value": f"R{i}", "labels": {"who": f"w{i}"}, "kw": {"v": v}} for i, v in enumerate(vals)]
        out.append({"A": 3, "P": 1, "N": None, "stream": "finite", "stop": False, "level": 0, "deps": gq, "msgs": msgs})
    # four messages, at most three in processing: contexts handed from finished executions to later ones
    for order in (("g", "p"), ("p", "g")):
        for k in ((("plain", False), ("agen", False)) if tier == "quick" else KINDS):
            g4 = {"roots": list(order), "task_ctx": True,
                  "nodes": {"g": {"style": "aplain", "children": [], "gate": True, "cache": True}, "p": _node(k, [], True)}}
            g4["nodes"]["p"]["gate"] = False
            msgs = [{"task": "dep", "body": "immediate", "value": f"R{i}", "labels": {"who": f"w{i}"}} for i in range(4)]
            out.append({"A": 3, "P": 1, "N": None, "stream": "finite", "stop": False, "level": 0, "deps": g4, "msgs": msgs})
    # a dependency of message 0 fails (always / only the first time) after a suspension point while message 1
    # enters processing: whatever is resolved for message 0 before, after or instead still sees message 0
    for order in (("p", "f"), ("f", "p")):
        for k in (KINDS if tier == "thorough" else KINDS[::3]):
            for mode in ("fail", "fail_once"):
                for tc in (True, False):
                    g = {"roots": list(order), "task_ctx": tc,
                         "nodes": {"f": {"style": "aplain", "children": ["c"], "gate": True, "cache": True, mode: [0]},
                                   "c": _node(("plain", True), [], True), "p": _node(k, [], True)}}
                    msgs = [{"task": "dep", "body": "immediate", "value": f"R{i}", "labels": {"who": f"w{i}"}} for i in range(2)]
                    out.append({"A": 3, "P": 1, "N": None, "stream": "finite", "stop": False, "level": 0, "deps": g, "msgs": msgs})
    # saturated worker with a filled prefetch queue: two executions end in the same loop iteration and the next
    # two messages are started back to back (each must still see its own message)
    g = {"roots": ["p"], "task_ctx": True, "nodes": {"p": _node(("plain", True), [], True)}}
    msgs = [{"task": "dep", "body": "gated", "value": f"R{i}", "labels": {"who": f"w{i}"}} for i in range(5)]
    out.append({"A": 2, "P": 2, "N": None, "stream": "finite", "stop": False, "level": 1, "deps": g, "msgs": msgs, "max_body": 3})
    return out


def shards(tier: str, seed: int) -> List[Any]:
    scs = scenarios(tier)
    if tier == "thorough":
        mark_stateless(scs, 2, 9)
    scs.sort(key=lambda s: (-s["level"], -len(s["msgs"])))
    big = [s for s in scs if s["level"] or len(s["msgs"]) > 2]
    small = [s for s in scs if not (s["level"] or len(s["msgs"]) > 2)]
    return [[s] for s in big] + [small[i : i + 6] for i in range(0, len(small), 6)]


def _per(sc: Dict[str, Any], res: Any, acc: Acc) -> None:
    if res.maxima.get("checked", 0):
        acc.count("observations_checked")
    if res.maxima.get("overlap", 0):
        acc.count("overlapping_resolutions")


def run_shard(shard: List[Dict[str, Any]]) -> Dict[str, Any]:
    return run_scenarios("C06", shard, C06World, per_scenario=_per).as_dict()


def replay(obj: Dict[str, Any]) -> int:
    return _replay(obj, C06World)
