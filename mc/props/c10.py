"""C10 - middleware hooks fire in the documented order, once per message (E3 + E1)."""
from __future__ import annotations

import itertools
from typing import Any, Dict, List, Tuple

from mc.common import Acc
from mc.recv_driver import replay as _replay
from mc.recv_driver import mark_stateless, run_scenarios
from mc.recv_world import RecvWorld

W_HOOKS = ["pre_execute", "on_error", "post_execute", "post_save"]
EV = {"pre_execute": "PRE", "on_error": "ONERR", "post_execute": "POST", "post_save": "PSAVE"}
OUTCOMES: Dict[str, Dict[str, Any]] = {
    "return": {},
    "raise": {"outcome": "raise"},
    "noresult": {"outcome": "noresult"},
    "savefail": {"save_fails": True},
    "sync-raise": {"flavour": "sync", "outcome": "raise"},
    "timeout": {"outcome": "never", "timeout": 0.2},
    "raise-base": {"outcome": "raise", "exc": "CancelledError"},
    "sync-systemexit": {"flavour": "sync", "outcome": "raise", "exc": "SystemExit"},
}

META = {
    "kind": "graph",
    "engine": "E1 exploration of Receiver.listen()/callback() (worker side) + bounded-exhaustive enumeration of AsyncKicker.kiq (client side), both against a reference hook sequence",
    "rule": (
        "worker side: every stack of 0..k recording middlewares, each overriding any subset of {pre_execute, on_error, "
        "post_execute, post_save}, sync or async, message-replacing or not, x outcome (return, raise, no-result, backend "
        "failure, sync raise, timeout, CancelledError / SystemExit raised by the task); hooks also as plain functions returning a Task; the single message goes through the real listen()/callback() and its projected "
        "event log must equal the reference sequence PRE(m1..mk) START END [ONERR(m1..mk) iff raised] POST(m1..mk) "
        "[SAVE PSAVE(m1..mk) iff a result was stored], each overridden hook exactly once, non-overridden hooks never, each "
        "pre_execute seeing the replacement made by its predecessors. Concurrency: 2 messages x 2 middlewares with every "
        "hook completion a separate event, all orderings (level 0 and 1), order checked per message. Client side: every "
        "stack of 0..3 middlewares over subsets of {pre_send, post_send} x sync/async x replacing x kick ok/raising x kicker "
        "created before/after the middlewares were registered: "
        "pre_send in order each seeing its predecessor's message, kick receives the last message, post_send iff kick "
        "succeeded, failed kick surfaces as SendTaskError. Concurrent sends (E1, mc/send_world.py): 2 (thorough: 3) kiq() calls on one "
        "broker, started at any point of each other's progress, stacks of 1..2 middlewares whose pre_send/post_send are sync or "
        "suspend on a gate, kick ok/raising/suspending, fresh kicker per send / one long-lived kicker / task.kiq(); all interleavings "
        "(level 0, and level 1 for the one-middleware stacks); each send's own event sequence must be a prefix of, and finally equal, "
        "the single-send reference; plain-valued attributes of the broker and of the shared kicker are part of the fingerprint. "
        "distinct_nontrivial = distinct reference sequences exercised."
        " Fault-overlap family (mc/fault_overlap.py): message X suffers one fault out of {pre_execute/post_execute/post_save/on_error hook, sync or async ack, result backend} x {RuntimeError, CancelledError, TimeoutError}, backend failing once, body raise/CancelledError/timeout/no-result, malformed/unknown message, broker stream error, while the healthy message Y has suspension points before, inside and after its function and the stop request may arrive at any point; Y's hook sequence equals the reference whenever its processing ends (also after a broker stream error), X's for body outcomes and backend failures."
        " Repeated faults (mc/fault_overlap.py::repeats): the same fault k times in a row (k in 3..6; thorough up to 10) on one worker, then healthy messages - a counter, pool, budget or throttle inside the worker must not change what happens at the k-th occurrence. Three messages in processing at once, each parked in one gated hook (incl. three failing messages inside on_error together)."
        " Middleware classes that come by their hooks through inheritance (all hooks on an intermediate class, split between it and the leaf, supplied by a mixin) on the worker side (one middleware, all hook subsets) and rotated through the client enumeration."
        " Client sends whose message cannot be serialised (formatter.dumps raising): pre_send hooks run, nothing reaches the broker, no post_send, the caller gets SendTaskError."
    ),
    "assumptions": [
        "hooks are recording TaskiqMiddleware subclasses generated per case; 'overridden' is what the class defines",
    ],
    "required_counters": ["scenarios", "client_cases", "worker_sequences_checked", "concurrent_send_scenarios_checked"],
    "bounds": {
        "quick": {"worker_stack": "size<=2 all; size 3 over 4 hook subsets", "client_stack": "<=3", "concurrent": "2 msgs x 2 mws gated, L0", "concurrent_sends": "2 sends, stacks<=2, L0 (+L1 for 6 stacks)"},
        "thorough": {"worker_stack": "size<=3 all subsets", "client_stack": "<=3", "concurrent": "2 msgs x 2 mws gated, L0+L1", "concurrent_sends": "2 sends L0+L1, 3 sends L0, three kicker styles"},
    },
}


class C10World(RecvWorld):
    checked = 0

    def metrics(self) -> Dict[str, int]:
        m = super().metrics()
        m["checked"] = self.checked
        return m

    def reference(self, i: int) -> List[Tuple[Any, ...]]:
        m = self.msgs[i]
        mws = self.sc.get("mws", [])
        seq: List[Tuple[Any, ...]] = []
        marks: List[str] = []

        def add(hook: str, mi: int, mk: Tuple[str, ...]) -> None:
            seq.append((EV[hook], mi, mk))
            if mws[mi]["hooks"][hook] in ("gated", "future"):
                seq.append((EV[hook] + "_E", mi))

        for mi, mw in enumerate(mws):
            if "pre_execute" in mw["hooks"]:
                add("pre_execute", mi, tuple(sorted(marks)))
                if mw.get("replace"):
                    marks.append(f"mw{mi}")
        allm = tuple(sorted(marks))
        raised = m["outcome"] in ("raise", "noresult", "never")
        if m["flavour"] == "sync":
            seq.append(("SUBMIT",))
            if m["outcome"] != "never":
                seq.append(("START",))
        else:
            seq.append(("START",))
        if m["outcome"] == "return":
            seq.append(("END", "return"))
        elif m["outcome"] == "raise":
            seq.append(("END", "raise:" + m["exc"]))
        elif m["outcome"] == "noresult":
            seq.append(("END", "noresult"))
        elif m["flavour"] == "async":
            seq.append(("END", "cancelled:CancelledError"))
        if raised:
            for mi, mw in enumerate(mws):
                if "on_error" in mw["hooks"]:
                    add("on_error", mi, allm)
        for mi, mw in enumerate(mws):
            if "post_execute" in mw["hooks"]:
                add("post_execute", mi, allm)
        if m["outcome"] != "noresult":
            seq.append(("SAVE_B",))
            if m["save_fails"]:
                seq.append(("SAVE_F",))
            else:
                seq.append(("SAVE_E",))
                for mi, mw in enumerate(mws):
                    if "post_save" in mw["hooks"]:
                        add("post_save", mi, allm)
        return seq

    def on_event(self, ev: Any) -> None:
        super().on_event(ev)
        if ev[0] != "CB_E" or self.closed:
            return
        i = ev[1]
        if self.msgs[i]["kind"] != "valid" or self.relaxed(i):
            return
        got = [e for e in self.per[i] if e[0] not in ("TAKEN", "CB_B", "CB_E", "ACK_B", "ACK_E", "ACK_F")]
        got = [e if e[0] != "SAVE_B" else ("SAVE_B",) for e in got]
        ref = self.reference(i)
        self.checked += 1
        if got != ref:
            k = 0
            while k < min(len(got), len(ref)) and got[k] == ref[k]:
                k += 1
            what = "missing" if k >= len(got) else ("extra" if k >= len(ref) else "differs")
            at = (ref[k][0] if k < len(ref) else got[k][0])
            self.flag(
                f"C10:worker-sequence-{what}-{at}",
                f"message {i}: hook/event sequence {got} != reference {ref} (first difference at position {k})",
            )


# ---------------------------------------------------------------- scenario generation (worker side)

def _subsets(items: List[str]) -> List[Tuple[str, ...]]:
    return [c for r in range(len(items) + 1) for c in itertools.combinations(items, r)]


def _mw(hooks: Tuple[str, ...], mode: str, replace: bool) -> Dict[str, Any]:
    return {"hooks": {h: mode for h in hooks}, "replace": replace}


def worker_scenarios(tier: str) -> List[Dict[str, Any]]:
    out = []
    subs = _subsets(W_HOOKS)
    variants = [(s, mode, rep) for s in subs for mode in ("sync", "async") for rep in ((False, True) if "pre_execute" in s else (False,))]
    fut = [(s, "future", "pre_execute" in s) for s in subs if s]
    stacks: List[List[Dict[str, Any]]] = [[]]
    stacks += [[_mw(*v)] for v in variants + fut]
    stacks += [[_mw(*v1), _mw(*v2)] for v1 in variants for v2 in variants]
    partner = (tuple(W_HOOKS), "async", True)
    stacks += [[_mw(*v), _mw(*partner)] for v in fut] + [[_mw(*partner), _mw(*v)] for v in fut]
    if tier == "quick":
        few = [(tuple(W_HOOKS), "sync", True), (("pre_execute", "post_save"), "async", True), (("on_error",), "sync", False), ((), "sync", False)]
        stacks += [[_mw(*a), _mw(*b), _mw(*c)] for a in few for b in few for c in few]
        outcomes = list(OUTCOMES)
    else:
        v3 = [(s, mode, "pre_execute" in s) for s in subs for mode in ("sync", "async")]
        stacks += [[_mw(*a), _mw(*b), _mw(*c)] for a in v3 for b in v3[::2] for c in v3[1::2]]
        outcomes = list(OUTCOMES)
    for st in stacks:
        for o in outcomes:
            if len(st) >= 2 and o in ("sync-raise", "timeout", "sync-systemexit") and tier == "quick":
                continue
            out.append({"A": 2, "P": 0, "N": None, "stream": "finite", "stop": False, "level": 0,
                        "msgs": [dict(OUTCOMES[o], body="immediate" if OUTCOMES[o].get("outcome") != "never" else "gated")],
                        "mws": st})
    # hooks the middleware class did not define itself: inherited from an intermediate class, split between
    # it and the leaf, or supplied by a mixin
    for inh in ("base", "split", "mixin"):
        for v in variants:
            if not v[0] or (tier == "quick" and len(v[0]) not in (1, 4) and v[1] == "async"):
                continue
            for o in ("return", "raise"):
                out.append({"A": 2, "P": 0, "N": None, "stream": "finite", "stop": False, "level": 0,
                            "msgs": [dict(OUTCOMES[o], body="immediate")], "mws": [dict(_mw(*v), inherit=inh)]})
    # three messages in processing at once, each parked in one gated hook (the others sync): e.g. three
    # failing messages inside on_error together
    for hook in W_HOOKS:
        for outs in (("raise", "raise", "raise"), ("return", "raise", "return")):
            if hook == "on_error" and "raise" not in outs:
                continue
            hooks3 = {h: ("gated" if h == hook else "sync") for h in W_HOOKS}
            out.append({"A": 3, "P": 1, "N": None, "stream": "finite", "stop": False, "level": 0,
                        "msgs": [dict(OUTCOMES[o], body="immediate") for o in outs],
                        "mws": [{"hooks": hooks3, "replace": True}, {"hooks": {h: "sync" for h in W_HOOKS}, "replace": False}]})
    # concurrency: 2 messages, 2 middlewares, every hook gated
    gated = {"hooks": {h: "gated" for h in W_HOOKS}, "replace": True}
    pairs = [("return", "raise"), ("raise", "noresult"), ("savefail", "return")] if tier == "quick" else list(itertools.product(list(OUTCOMES)[:4], repeat=2))
    for o1, o2 in pairs:
        for lvl in ((0,) if tier == "quick" else (0, 1)):
            out.append({"A": 2, "P": 1, "N": None, "stream": "finite", "stop": False, "level": lvl,
                        "msgs": [dict(OUTCOMES[o1], body="immediate"), dict(OUTCOMES[o2], body="immediate")],
                        "mws": [dict(gated), {"hooks": {"pre_execute": "gated", "post_save": "gated"}, "replace": False}] if lvl == 0 else [{"hooks": {"pre_execute": "gated", "post_execute": "gated"}, "replace": True}]})
    return out


# ---------------------------------------------------------------- client side (E3)

def client_cases() -> List[Tuple[Any, ...]]:
    variants = [(s, mode, rep) for s in _subsets(["pre_send", "post_send"]) for mode in ("sync", "async") for rep in ((False, True) if "pre_send" in s else (False,))]
    stacks: List[Tuple[Any, ...]] = [()]
    for k in (1, 2, 3):
        stacks += list(itertools.product(variants, repeat=k))
    # early: False | True (kicker created before the middlewares were registered) | "reused" (the middleware
    # objects had been registered on another broker first)
    return [(st, kick, early) for st in stacks for kick in ("ok", "raise", "dumps-raise") for early in (False, True, "reused")
            if (st or not early) and not (kick == "dumps-raise" and early)]


def run_client(cases: List[Tuple[Any, ...]], acc: Acc) -> None:
    from taskiq.abc.broker import AsyncBroker
    from taskiq.abc.middleware import TaskiqMiddleware
    from taskiq.exceptions import SendTaskError
    from mc.vloop import run_sync

    for st, kick, early_kicker in cases:
        log: List[Any] = []

        class B(AsyncBroker):
            async def kick(self, message):  # noqa: ANN001
                tm = self.formatter.loads(message.message)
                log.append(("KICK", tuple(sorted(k for k in tm.labels if k.startswith("mw"))), message.task_id, tm.args))
                if kick == "raise":
                    raise RuntimeError("broker down")

            async def listen(self):  # pragma: no cover
                yield b""

        b = B()
        if kick == "dumps-raise":
            # the message cannot be turned into a BrokerMessage (a formatter with a size limit, an argument the
            # serializer cannot encode): the send fails after pre_send, before the broker sees anything
            from taskiq.abc.formatter import TaskiqFormatter

            class RefusingFormatter(TaskiqFormatter):
                def dumps(self, message):  # noqa: ANN001
                    raise ValueError("message too large")

                def loads(self, message):  # noqa: ANN001  # pragma: no cover
                    raise NotImplementedError

            b = b.with_formatter(RefusingFormatter())

        async def f(x, y):  # noqa: ANN001
            return None

        f.__module__ = "mc.props.c10"
        task = b.register_task(f, task_name="c10:f")
        # a long-lived kicker created before the middlewares are registered must still run them
        kicker = task.kicker().with_task_id("tid-1") if early_kicker is True else None
        other_broker = B() if early_kicker == "reused" else None
        ref: List[Any] = []
        marks: List[str] = []
        for mi, (hooks, mode, rep) in enumerate(st):
            methods = {}

            def mk(hook: str, mi: int = mi, mode: str = mode, rep: bool = rep) -> Any:
                def body(message: Any) -> Any:
                    log.append((hook, mi, tuple(sorted(k for k in message.labels if k.startswith("mw")))))
                    if hook == "pre_send":
                        if rep:
                            return message.model_copy(update={"labels": {**message.labels, f"mw{mi}": str(mi)}})
                        return message
                    return None
                if mode == "sync":
                    def h(self, message):  # noqa: ANN001
                        return body(message)
                else:
                    async def h(self, message):  # noqa: ANN001
                        return body(message)
                h.__name__ = hook
                return h

            for hk in hooks:
                methods[hk] = mk(hk)
            from mc.recv_world import make_mw_class

            # the client enumeration rotates the way the class comes by its hooks
            inh = (None, "base", "mixin", "split")[(len(st) + mi + len(hooks)) % 4] if hooks else None
            mw_obj = make_mw_class(f"CMW{mi}", TaskiqMiddleware, methods, inh)()
            if other_broker is not None:
                other_broker.add_middlewares(mw_obj)
            b.add_middlewares(mw_obj)
        for mi, (hooks, mode, rep) in enumerate(st):
            if "pre_send" in hooks:
                ref.append(("pre_send", mi, tuple(sorted(marks))))
                if rep:
                    marks.append(f"mw{mi}")
        allm = tuple(sorted(marks))
        if kick != "dumps-raise":
            ref.append(("KICK", allm, "tid-1", [1, "a"]))
        if kick == "ok":
            for mi, (hooks, mode, rep) in enumerate(st):
                if "post_send" in hooks:
                    ref.append(("post_send", mi, allm))

        err = None
        res = None
        try:
            res = run_sync((kicker or task.kicker().with_task_id("tid-1")).kiq(1, "a"))
        except BaseException as exc:
            err = exc
        acc.evaluations += 1
        acc.count("client_cases")
        acc.outcome(("client", tuple(r[:2] for r in ref), kick))
        case = {"stack": [list(map(str, v)) for v in st], "kick": kick, "kicker_created_before_middlewares": early_kicker}
        if log != ref:
            acc.violation("client-sequence", f"client hook sequence {log} != reference {ref} for {case}", {"client": case})
        if kick == "dumps-raise":
            if not isinstance(err, SendTaskError) or not isinstance(err.__cause__, ValueError):
                acc.violation("client-failed-send-not-sendtaskerror", f"a message that could not be serialised surfaced as {err!r} for {case}", {"client": case})
        elif kick == "raise":
            if not isinstance(err, SendTaskError) or not isinstance(err.__cause__, RuntimeError):
                acc.violation("client-failed-kick-not-sendtaskerror", f"failed kick surfaced as {err!r} for {case}", {"client": case})
        else:
            if err is not None or res is None or res.task_id != "tid-1":
                acc.violation("client-kiq-failed", f"kiq returned {res!r} / raised {err!r} for {case}", {"client": case})
        if acc.evaluations % 997 == 1:
            acc.sample({"client_case": case, "observed": [list(map(str, e)) for e in log]})


# ---------------------------------------------------------------- concurrent sends (E1)

def send_scenarios(tier: str) -> List[Dict[str, Any]]:
    """2 (thorough: also 3) sends overlapping on one broker: every interleaving of the sends' starts with
    the suspension points of gated hooks and of the broker's kick()."""
    out: List[Dict[str, Any]] = []
    modes = ("sync", "gated")
    one = [{"pre_send": a, "post_send": b, "replace": r} for a in (None,) + modes for b in (None,) + modes
           for r in ((False, True) if a else (False,)) if a or b]
    stacks: List[List[Dict[str, Any]]] = [[m] for m in one]
    two = [m for m in one if "gated" in (m["pre_send"], m["post_send"])]
    stacks += [[a, b] for a in two for b in ({"pre_send": "sync", "post_send": "sync", "replace": True},
                                              {"pre_send": "gated", "post_send": None, "replace": True})]
    kicks = [("ok", "ok"), ("gated", "ok"), ("ok", "gated-raise"), ("gated-raise", "gated")]
    for st in stacks:
        for ks in kicks:
            for kicker in ("fresh", "shared", "task"):
                if tier == "quick" and kicker != "fresh" and (len(st) > 1 or ks != ("gated", "ok")):
                    continue
                if not ks[0].startswith("gated") and not any("gated" in (m["pre_send"], m["post_send"]) for m in st):
                    continue  # the first send never suspends: nothing can overlap it
                out.append({"mws": st, "sends": [{"kick": x} for x in ks], "kicker": kicker, "level": 0})
    lvl1 = stacks[:6] if tier == "quick" else stacks
    for st in lvl1:
        out.append({"mws": st, "sends": [{"kick": "gated"}, {"kick": "ok"}], "kicker": "fresh", "level": 1})
    if tier == "thorough":
        for st in stacks:
            out.append({"mws": st, "sends": [{"kick": "gated"}, {"kick": "ok"}, {"kick": "gated-raise"}], "kicker": "fresh", "level": 0})
    return out


def _per_send(sc: Dict[str, Any], res: Any, acc: Acc) -> None:
    if res.maxima.get("checked", 0):
        acc.count("concurrent_send_scenarios_checked")
    if res.maxima.get("max_overlap", 0) < 2:
        acc.cap(f"concurrent-send scenario never had two sends in flight: {sc}")


def fault_family(tier: str) -> List[Dict[str, Any]]:
    """One fault in message X (hook / ack / backend / body / junk / broker stream error) while message Y is
    suspended in a hook, in its function or in its ack, stop request at any point (mc/fault_overlap.py): Y's
    hook sequence is the reference sequence whenever its processing ends; X's too for body outcomes and
    backend failures (a raising hook or ack legitimately cuts X's own sequence short)."""
    from mc import fault_overlap as fo

    out = []
    for a in ((3,) if tier == "quick" else (2, 3)):
        for sc in fo.family(tier, a=a, orders=(True, False) if tier == "thorough" else (True,)):
            k, d = sc["fault"]
            sc["relax_x"] = k in ("hook", "ack", "junk") or (k == "save" and d == "cancel")
            out.append(sc)
    for sc in fo.repeats(tier, ks=(3, 4) if tier == "quick" else (3, 4, 5, 6), tail=1):
        k, d = sc["fault"]
        sc["relax_x"] = k in ("hook", "ack", "junk") or (k == "save" and d == "cancel")
        out.append(sc)
    return out


def shards(tier: str, seed: int) -> List[Any]:
    return [("worker", ff[i : i + 10]) for ff in [fault_family(tier)] for i in range(0, len(ff), 10)] + _shards(tier, seed) + [("sends", ss[i : i + 12]) for ss in [send_scenarios(tier)] for i in range(0, len(ss), 12)]


def _shards(tier: str, seed: int) -> List[Any]:
    scs = worker_scenarios(tier)
    if tier == "thorough":
        mark_stateless(scs, 6, 12)
    scs.sort(key=lambda s: (-s["level"], -len(s["msgs"]), -len(s["mws"])))
    big = [s for s in scs if len(s["msgs"]) > 1]
    small = [s for s in scs if len(s["msgs"]) == 1]
    out: List[Any] = [("worker", [s]) for s in big]
    out += [("worker", small[i : i + 60]) for i in range(0, len(small), 60)]
    cc = client_cases()
    out += [("client", list(range(i, min(i + 800, len(cc))))) for i in range(0, len(cc), 800)]
    return out


def _per(sc: Dict[str, Any], res: Any, acc: Acc) -> None:
    if res.maxima.get("checked", 0):
        acc.count("worker_sequences_checked")


def run_shard(shard: Any) -> Dict[str, Any]:
    kind, payload = shard
    if kind == "worker":
        return run_scenarios("C10", payload, C10World, per_scenario=_per).as_dict()
    if kind == "sends":
        from mc.send_world import SendWorld

        return run_scenarios("C10", payload, SendWorld, per_scenario=_per_send).as_dict()
    acc = Acc()
    cc = client_cases()
    run_client([cc[i] for i in payload], acc)
    # the client part has no state graph of its own; count each case as one explored path
    acc.paths += len(payload)
    return acc.as_dict()


def replay(obj: Dict[str, Any]) -> int:
    if "client" in obj:
        acc = Acc()
        case = obj["client"]
        st = tuple((tuple(eval(v[0])) if isinstance(v[0], str) else tuple(v[0]), v[1], v[2] in (True, "True")) for v in case["stack"])
        run_client([(st, case["kick"], case.get("kicker_created_before_middlewares"))], acc)
        for k, v in acc.violations.items():
            print(k, v["message"])
        return 1 if acc.violations else 0
    if "sends" in obj.get("scenario", {}):
        from mc.send_world import SendWorld

        return _replay(obj, SendWorld)
    return _replay(obj, C10World)
