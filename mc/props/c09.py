"""C09 - labels keep value and type end to end; per-call customisation never leaks (E3, explicit-state)."""
from __future__ import annotations

import itertools
import math
from typing import Any, Dict, List, Tuple

from mc.common import Acc, setup_repo_path

setup_repo_path()
from taskiq import Context, TaskiqDepends  # noqa: E402

VALUES: List[Any] = [
    0, 1, -1, 2**63, -(2**200),
    0.0, -0.0, 1.0, 1e-320, 1.5, 1e308, float("inf"), float("-inf"), float("nan"),
    True, False,
    "", "True", "1", "é", " ", "\ud800",
    b"", b"\x00\xff", b"abcd", b"\xfb\xff\xfe",
]
STEPS = ["retry", "requeue"]

META = {
    "kind": "graph",
    "engine": "E3: closed-loop enumeration of label dictionaries x delivery histories, and explicit-state BFS over kicker operation sequences, against reference models",
    "rule": (
        "(a) every label dictionary of <= 2 entries over a 25-value alphabet (26 values) of the five primitive types (ints 0, 1, -1, 2^63, "
        "-2^200; floats 0.0, -0.0, 1.0, 1e-320, 1.5, 1e308, inf, -inf, nan; bools; str '', 'True', '1', 'e-acute', ' ', a lone "
        "surrogate; bytes b'', b'\\x00\\xff', b'abcd'), set on the task or on the kicker, through the JSON and pickle "
        "serializers, observed in a recording pre_execute middleware, in Context.message.labels and in the stored "
        "TaskiqResult.labels, on first delivery and after every sequence of <= 3 steps over {retry via the real "
        "SimpleRetryMiddleware, requeue via Context.requeue}; equality is value and type(), NaN by isnan, -0.0 by sign. "
        "(b) BFS over operation sequences of depth <= 4 on one task (ordinary and shared) over {kiq(), "
        "kicker().with_labels(a=1).kiq(), kicker().with_labels(b=2).kiq(), kicker().with_task_id(x).kiq(), "
        "kicker().with_broker(other).kiq()}; state = task.labels + what the last send carried; reference: every send carries "
        "declared labels + its own overrides, declared labels never change, ids/brokers do not carry over. (c) every ordered "
        "pair of alphabet values as the label of two consecutive unrelated sends in one process (values that compare "
        "equal across types - True/1/1.0, False/0/0.0/-0.0 - must not influence each other). states/transitions "
        "= those of (b) plus one state per delivery observed in (a)."
        " Long-lived kicker: every history up to 4 (thorough 6) calls over {kiq, with_labels(a=1), with_labels(a=2.5), with_labels(a=bytes) (same key, other value and type), with_labels(b), with_task_id, with_broker} on ONE kicker object; each kiq sends what the calls so far add up to."
        " Formatter dimension: the default ProxyFormatter (JSON / pickle serializer), the bundled JSONFormatter and an application-defined TaskiqFormatter."
    ),
    "assumptions": ["ORJSON / MsgPack / CBOR serializers cannot be imported in this image and are not covered"],
    "required_counters": ["label_cases", "deliveries_checked", "kicker_sequences", "requeues", "retries", "send_pairs"],
    "bounds": {"quick": {"dict_size": "1 (all), 2 (all pairs with the first value from a 9-value subset)", "steps": "<=2"},
               "thorough": {"dict_size": "<=2 (all ordered pairs)", "steps": "<=3"}},
}


def same(a: Any, b: Any) -> bool:
    if type(a) is not type(b):
        return False
    if isinstance(a, float):
        if math.isnan(a) or math.isnan(b):
            return math.isnan(a) and math.isnan(b)
        return a == b and math.copysign(1, a) == math.copysign(1, b)
    return a == b


def label_dicts(tier: str) -> List[Dict[str, Any]]:
    out = [{"a": v} for v in VALUES]
    firsts = VALUES if tier == "thorough" else [VALUES[i] for i in (0, 4, 6, 11, 13, 14, 17, 21, 23)]
    for v1 in firsts:
        for v2 in VALUES:
            out.append({"a": v1, "b": v2})
    return out


def step_seqs(tier: str) -> List[Tuple[str, ...]]:
    k = 2 if tier == "quick" else 3
    out: List[Tuple[str, ...]] = [()]
    for n in range(1, k + 1):
        out += list(itertools.product(STEPS, repeat=n))
    return out


# ------------------------------------------------------------------------------------------ (a)

def run_label_case(labels: Dict[str, Any], where: str, ser: str, seq: Tuple[str, ...], acc: Acc) -> None:
    from taskiq.abc.broker import AsyncBroker
    from taskiq.abc.middleware import TaskiqMiddleware
    from taskiq.abc.result_backend import AsyncResultBackend
    from taskiq.middlewares.retry_middleware import SimpleRetryMiddleware
    from taskiq.receiver import Receiver
    from taskiq.serializers.pickle import PickleSerializer
    from mc.vloop import run_sync

    pending: List[bytes] = []
    seen_mw: List[Dict[str, Any]] = []
    seen_ctx: List[Dict[str, Any]] = []
    stored: List[Any] = []
    plan = list(seq)

    class B(AsyncBroker):
        async def kick(self, message: Any) -> None:
            pending.append(message.message)

        async def listen(self):  # pragma: no cover
            yield b""

    class RB(AsyncResultBackend):  # type: ignore[type-arg]
        async def set_result(self, task_id: str, result: Any) -> None:
            stored.append(result)

        async def is_result_ready(self, task_id: str) -> bool:
            return False

        async def get_result(self, task_id: str, with_logs: bool = False) -> Any:
            raise KeyError(task_id)

    seen_post: List[Dict[str, Any]] = []

    class Spy(TaskiqMiddleware):
        def pre_execute(self, message: Any) -> Any:
            seen_mw.append(dict(message.labels))
            return message

        def post_execute(self, message: Any, result: Any) -> None:
            seen_post.append(dict(message.labels))

    b = B()
    b.result_backend = RB()
    if ser == "pickle":
        b.serializer = PickleSerializer()
    elif ser == "json-formatter":
        from taskiq.formatters.json_formatter import JSONFormatter

        b = b.with_formatter(JSONFormatter())
    elif ser == "user-formatter":
        import pickle as _pickle

        from taskiq.abc.formatter import TaskiqFormatter
        from taskiq.message import BrokerMessage, TaskiqMessage

        class UserFormatter(TaskiqFormatter):
            """A formatter written by the application, as docs/guide/message-format.md describes."""

            def dumps(self, message: Any) -> Any:
                return BrokerMessage(task_id=message.task_id, task_name=message.task_name,
                                     message=_pickle.dumps(message.model_dump()), labels=message.labels)

            def loads(self, message: bytes) -> Any:
                return TaskiqMessage.model_validate(_pickle.loads(message))

        b = b.with_formatter(UserFormatter())
    b.add_middlewares(Spy(), SimpleRetryMiddleware(default_retry_count=10, default_retry_label=True, no_result_on_retry=True))

    async def job(ctx: Context = TaskiqDepends()) -> str:
        n = len(seen_ctx)
        seen_ctx.append(dict(ctx.message.labels))
        if n < len(plan):
            if plan[n] == "retry":
                raise ValueError("again")
            await ctx.requeue()
        return "ok"

    job.__module__ = "mc.props.c09"
    if where == "task":
        task = b.register_task(job, task_name="c09:job", **labels)
        kicker = task.kicker()
    else:
        task = b.register_task(job, task_name="c09:job")
        kicker = task.kicker().with_labels(**labels)
    rec = Receiver(b, run_startup=False, max_async_tasks=1)
    errors: List[str] = []

    async def drive() -> None:
        await kicker.kiq()
        guard = 0
        while pending and guard < 10:
            guard += 1
            await rec.callback(pending.pop(0))

    try:
        run_sync(drive())
    except BaseException as exc:
        errors.append(f"{type(exc).__name__}: {exc}")
    acc.paths += 1
    acc.count("label_cases")
    acc.count("requeues", seq.count("requeue"))
    acc.count("retries", seq.count("retry"))
    desc = {"labels": {k: repr(v) for k, v in labels.items()}, "set_on": where, "serializer": ser, "steps": list(seq)}
    rp = {"label_case": [[[k, _enc(v)] for k, v in labels.items()], where, ser, list(seq)]}
    want_n = len(seq) + 1
    acc.outcome(("labels", tuple(type(v).__name__ for v in labels.values()), seq))
    if errors:
        first = seq[len(seen_ctx) - 1] if 0 < len(seen_ctx) <= len(seq) else "send"
        key = f"delivery-raised-during-{first}"
        lone = any(isinstance(v, str) and any(0xD800 <= ord(c) <= 0xDFFF for c in v) for v in labels.values())
        if ser == "json-formatter" and lone and first == "send" and errors[0].startswith("SendTaskError"):
            # known finding D13: the bundled JSONFormatter dumps with pydantic's JSON encoder, which refuses a
            # str holding a lone surrogate (the default formatter + JSON serializer escapes it)
            key = "D13-jsonformatter-lone-surrogate-label"
        acc.violation(key, f"{errors[0]} for {desc}", rp)
        return
    if len(seen_ctx) != want_n:
        step = seq[len(seen_ctx) - 1] if 0 < len(seen_ctx) <= len(seq) else "first"
        acc.violation(
            f"message-lost-after-{step}",
            f"{len(seen_ctx)} deliveries reached the task, expected {want_n} (the message re-sent by {step} did not arrive) for {desc}",
            rp,
        )
        return
    for n in range(want_n):
        acc.states += 1
        acc.transitions += 1
        acc.count("deliveries_checked")
        via = "first delivery" if n == 0 else f"delivery after {seq[n - 1]}"
        for src_name, got_all in (("middleware", seen_mw[n]), ("Context", seen_ctx[n]), ("post_execute middleware", seen_post[n] if n < len(seen_post) else {})):
            for k, v in labels.items():
                g = got_all.get(k, "<missing>")
                if not same(g, v):
                    acc.violation(
                        f"label-changed-{type(v).__name__}-after-{'first' if n == 0 else seq[n - 1]}",
                        f"{via}: label {k}={g!r} ({type(g).__name__}) seen in {src_name}, sent {v!r} ({type(v).__name__}) for {desc}",
                        rp,
                    )
                    return
    if len(stored) != 1:
        acc.violation("stored-result-count", f"{len(stored)} results stored for {desc}", rp)
        return
    for k, v in labels.items():
        g = stored[0].labels.get(k, "<missing>")
        if not same(g, v):
            acc.violation(f"result-label-changed-{type(v).__name__}", f"stored result label {k}={g!r}, sent {v!r} for {desc}", rp)
            return
    if acc.counters["label_cases"] % 2503 == 1:
        acc.sample({"label_case": desc, "deliveries": want_n, "labels_seen_last": {k: repr(v) for k, v in seen_ctx[-1].items()}})


def _enc(v: Any) -> Any:
    if isinstance(v, bytes):
        return ["bytes", list(v)]
    if isinstance(v, float):
        return ["float", repr(v)]
    if isinstance(v, bool):
        return ["bool", v]
    if isinstance(v, int):
        return ["int", str(v)]
    return ["str", [ord(c) for c in v]]


def _dec(e: Any) -> Any:
    t, v = e
    if t == "bytes":
        return bytes(v)
    if t == "float":
        return float(v)
    if t == "bool":
        return bool(v)
    if t == "int":
        return int(v)
    return "".join(chr(c) for c in v)


# ------------------------------------------------------------------------------------------ (c)

def run_send_pairs(acc: Acc) -> None:
    """Two sends in one process: every ordered pair (v1, v2) of the value alphabet as the label of
    two consecutive, unrelated sends (state carried between calls, e.g. caches keyed by value)."""
    for v1, v2 in itertools.product(VALUES, repeat=2):
        for where in ("task", "kicker"):
            for val in (v1, v2):
                before = acc.violation_count
                run_label_case({"a": val}, where, "json", (), acc)
                if acc.violation_count != before:
                    acc.count("pair_violations")
        acc.count("send_pairs")


# ------------------------------------------------------------------------------------------ (b)
OPS = ["kiq", "labels_a", "labels_b", "task_id", "broker"]


def run_kicker_bfs(shared: bool, depth: int, acc: Acc) -> None:
    from taskiq.abc.broker import AsyncBroker
    from taskiq.brokers.shared_broker import AsyncSharedBroker
    from mc.vloop import run_sync

    declared = {"d": "decl", "n": 3}
    seen = set()
    frontier: List[Tuple[str, ...]] = [()]
    saved_global = dict(AsyncBroker.global_task_registry)
    try:
        for _ in range(depth + 1):
            nxt = []
            for seq in frontier:
                sent: List[Tuple[str, Any]] = []

                def mk(name: str) -> Any:
                    class B(AsyncBroker):
                        async def kick(self, message: Any) -> None:
                            tm = self.formatter.loads(message.message)
                            tm.parse_labels()
                            sent.append((name, tm))

                        async def listen(self):  # pragma: no cover
                            yield b""
                    return B()

                main, other = mk("main"), mk("other")
                counter = itertools.count()
                main.id_generator = lambda: f"gen-{next(counter)}"
                other.id_generator = lambda: f"ogen-{next(counter)}"

                async def fn() -> None:
                    return None
                fn.__module__ = "mc.props.c09"
                if shared:
                    sb = AsyncSharedBroker()
                    sb.default_broker(main)
                    task = sb.register_task(fn, task_name="c09:shared", **dict(declared))
                else:
                    task = main.register_task(fn, task_name="c09:plain", **dict(declared))
                ok = True
                for i, op in enumerate(seq):
                    sent.clear()
                    k = task.kicker()
                    want_labels = dict(declared)
                    want_broker, want_id_prefix = "main", "gen-"
                    if op == "kiq":
                        run_sync(task.kiq())
                    elif op == "labels_a":
                        run_sync(k.with_labels(a=1).kiq())
                        want_labels["a"] = 1
                    elif op == "labels_b":
                        run_sync(k.with_labels(b=2).kiq())
                        want_labels["b"] = 2
                    elif op == "task_id":
                        run_sync(k.with_task_id(f"custom-{i}").kiq())
                        want_id_prefix = f"custom-{i}"
                    else:
                        run_sync(k.with_broker(other).kiq())
                        want_broker, want_id_prefix = "other", "ogen-"  # ids come from the broker that sends
                    acc.transitions += 1
                    name, tm = sent[0] if sent else ("<none>", None)
                    rp = {"kicker_sequence": [shared, list(seq)]}
                    prev = list(seq[:i])
                    if tm is None or name != want_broker:
                        acc.violation("send-went-to-wrong-broker", f"op {op} after {prev}: message went to {name}, expected {want_broker} (shared={shared})", rp)
                        ok = False
                        break
                    if tm.labels != want_labels or any(type(tm.labels[x]) is not type(want_labels[x]) for x in want_labels):
                        acc.violation(
                            "kicker-labels-leak",
                            f"op {op} after {prev} (shared={shared}): message carried labels {tm.labels}, expected declared+own = {want_labels}",
                            rp,
                        )
                        ok = False
                        break
                    if not tm.task_id.startswith(want_id_prefix):
                        acc.violation("task-id-carried-over", f"op {op} after {prev}: task_id {tm.task_id}, expected prefix {want_id_prefix}", rp)
                        ok = False
                        break
                    if task.labels != declared:
                        acc.violation("declared-labels-changed", f"after {list(seq[: i + 1])} (shared={shared}) task.labels = {task.labels}, declared {declared}", rp)
                        ok = False
                        break
                acc.paths += 1
                acc.count("kicker_sequences")
                if not ok:
                    continue
                state = (repr(sorted(task.labels.items())), seq[-1] if seq else None)
                acc.outcome(("kicker", shared, seq[-2:]))
                if state in seen and len(seq) >= 2:
                    pass  # identical observable state; still extend: a leak needs >= 2 sends to show and depth is tiny
                seen.add(state)
                acc.states += 1
                if len(seq) < depth:
                    nxt += [seq + (op,) for op in OPS]
            frontier = nxt
    finally:
        AsyncBroker.global_task_registry.clear()
        AsyncBroker.global_task_registry.update(saved_global)
    acc.sample({"kicker_bfs": {"shared": shared, "depth": depth, "ops": OPS}})


# ------------------------------------------------------------------------------------------ driver

def label_cases(tier: str) -> List[Tuple[int, str, str, int]]:
    dicts = label_dicts(tier)
    seqs = step_seqs(tier)
    out = []
    for di in range(len(dicts)):
        for where in ("task", "kicker"):
            for ser in ("json", "pickle"):
                for si in range(len(seqs)):
                    if tier == "quick" and len(dicts[di]) == 2 and ser == "pickle" and len(seqs[si]) == 2:
                        continue
                    out.append((di, where, ser, si))
    # brokers with a formatter other than the default one (bundled JSONFormatter, an application's own)
    for di in range(len(dicts)):
        for ser in ("json-formatter", "user-formatter"):
            for si in range(min(3 if tier == "quick" else len(seqs), len(seqs))):
                out.append((di, "kicker" if di % 2 else "task", ser, si))
    return out


# ------------------------------------------------------------------------------------------ (b')
P_OPS = ["kiq", "set_a_int", "set_a_float", "set_a_bytes", "set_b", "task_id", "broker"]


def run_persistent_kicker(depth: int, acc: Acc, only: Any = None) -> None:
    """One long-lived kicker object used for a whole history: every sequence up to `depth` over {kiq,
    with_labels(a=1), with_labels(a=2.5), with_labels(a=b'\xff') (overrides of the same key with another
    value and type), with_labels(b='x'), with_task_id, with_broker}. Each kiq() must send exactly what the
    calls made so far on that kicker add up to; the task's declared labels never change."""
    from taskiq.abc.broker import AsyncBroker
    from mc.vloop import run_sync

    declared = {"d": "decl", "a": 0}
    saved_global = dict(AsyncBroker.global_task_registry)
    try:
        for n in range(1, depth + 1):
            for seq in itertools.product(P_OPS, repeat=n):
                if seq[-1] != "kiq" or (only is not None and list(seq) != only):
                    continue
                sent: List[Tuple[str, Any]] = []

                def mk(name: str) -> Any:
                    class B(AsyncBroker):
                        async def kick(self, message: Any) -> None:
                            tm = self.formatter.loads(message.message)
                            tm.parse_labels()
                            sent.append((name, tm))

                        async def listen(self):  # pragma: no cover
                            yield b""
                    return B()

                main, other = mk("main"), mk("other")
                counter = itertools.count()
                main.id_generator = lambda: f"gen-{next(counter)}"
                other.id_generator = lambda: f"ogen-{next(counter)}"

                async def fn() -> None:
                    return None
                fn.__module__ = "mc.props.c09"
                task = main.register_task(fn, task_name="c09:persistent", **dict(declared))
                k = task.kicker()
                want_labels: Dict[str, Any] = dict(declared)
                want_broker, want_id = "main", None
                for i, op in enumerate(seq):
                    if op == "set_a_int":
                        k = k.with_labels(a=1)
                        want_labels["a"] = 1
                    elif op == "set_a_float":
                        k = k.with_labels(a=2.5)
                        want_labels["a"] = 2.5
                    elif op == "set_a_bytes":
                        k = k.with_labels(a=b"\xff")
                        want_labels["a"] = b"\xff"
                    elif op == "set_b":
                        k = k.with_labels(b="x")
                        want_labels["b"] = "x"
                    elif op == "task_id":
                        k = k.with_task_id(f"custom-{i}")
                        want_id = f"custom-{i}"
                    elif op == "broker":
                        k = k.with_broker(other)
                        want_broker = "other"
                    else:
                        sent.clear()
                        run_sync(k.kiq())
                        acc.transitions += 1
                        acc.count("persistent_kicker_sends")
                        rp = {"persistent_kicker": list(seq)}
                        name, tm = sent[0] if sent else ("<none>", None)
                        hist = list(seq[: i + 1])
                        if tm is None or name != want_broker:
                            acc.violation("send-went-to-wrong-broker", f"long-lived kicker, history {hist}: message went to {name}, expected {want_broker}", rp)
                            break
                        if tm.labels != want_labels or any(type(tm.labels[x]) is not type(want_labels[x]) for x in want_labels):
                            acc.violation(
                                "kicker-labels-stale",
                                f"long-lived kicker, history {hist}: message carried labels {tm.labels}, the calls so far add up to {want_labels}",
                                rp,
                            )
                            break
                        if want_id is not None and tm.task_id != want_id:
                            acc.violation("task-id-carried-over", f"long-lived kicker, history {hist}: task_id {tm.task_id}, expected {want_id}", rp)
                            break
                        if want_id is None and not tm.task_id.startswith("gen-" if want_broker == "main" else "ogen-"):
                            acc.violation("task-id-carried-over", f"long-lived kicker, history {hist}: task_id {tm.task_id}", rp)
                            break
                        if task.labels != declared:
                            acc.violation("declared-labels-changed", f"long-lived kicker, history {hist}: task.labels = {task.labels}, declared {declared}", rp)
                            break
                acc.paths += 1
                acc.count("kicker_sequences")
                acc.outcome(("persistent", seq[-3:]))
    finally:
        AsyncBroker.global_task_registry.clear()
        AsyncBroker.global_task_registry.update(saved_global)


def shards(tier: str, seed: int) -> List[Any]:
    n = len(label_cases(tier))
    out: List[Any] = [("labels", tier, i, min(i + 1500, n)) for i in range(0, n, 1500)]
    out += [("kicker", tier, False), ("kicker", tier, True), ("pairs", tier, 0), ("persistent", tier, 0)]
    return out


def run_shard(shard: Any) -> Dict[str, Any]:
    acc = Acc()
    if shard[0] == "labels":
        _, tier, lo, hi = shard
        dicts, seqs = label_dicts(tier), step_seqs(tier)
        for (di, where, ser, si) in label_cases(tier)[lo:hi]:
            run_label_case(dicts[di], where, ser, seqs[si], acc)
    elif shard[0] == "pairs":
        run_send_pairs(acc)
    elif shard[0] == "persistent":
        run_persistent_kicker(4 if shard[1] == "quick" else 6, acc)
    else:
        run_kicker_bfs(shard[2], 3 if shard[1] == "quick" else 4, acc)
    return acc.as_dict()


def replay(obj: Dict[str, Any]) -> int:
    acc = Acc()
    if "label_case" in obj:
        ls, where, ser, seq = obj["label_case"]
        run_label_case({k: _dec(v) for k, v in ls}, where, ser, tuple(seq), acc)
    elif "persistent_kicker" in obj:
        run_persistent_kicker(len(obj["persistent_kicker"]), acc, only=obj["persistent_kicker"])
    else:
        shared, seq = obj["kicker_sequence"]
        run_kicker_bfs(shared, max(2, len(seq)), acc)
    for k, v in acc.violations.items():
        print("oracle:", k, "-", v["message"])
    return 1 if acc.violations else 0
