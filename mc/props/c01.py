"""C01 - every message taken from the broker is executed exactly once (E1)."""
from __future__ import annotations

import itertools
from typing import Any, Dict, List

from mc.common import Acc
from mc.recv_driver import replay as _replay
from mc.recv_driver import run_scenarios
from mc.recv_world import RecvWorld

KINDS = {
    "v": {},
    "r": {"outcome": "raise"},
    "m": {"kind": "malformed"},
    "u": {"kind": "unknown"},
    "s": {"flavour": "sync"},  # sync task on the (fake) executor
    "a": {"ack": "async", "gates": ["ack"]},  # ackable message whose ack completes later
    "x": {"outcome": "raise", "exc": "SystemExit"},  # task calling sys.exit()
    "k": {"outcome": "raise", "exc": "KeyboardInterrupt", "flavour": "sync"},
    "p": {"task_kind": "annot"},  # task with annotated parameters (a plain class and an int) given by keyword
    "e": {"kind": "malformed", "payload": "empty"},  # empty payload
    "q": {"kind": "malformed", "payload": "sentinel-lookalike"},  # payload equal to the internal end marker
    "l": {"labels": {"prio": 3, "flag": True}, "typed": "partial"},  # typed labels plus un-typed ones stamped later by a client middleware
    "t": {"labels": {"prio": 3, "raw": b"\x00"}, "typed": "all"},  # labels as a kicker sends them
}

META = {
    "kind": "graph",
    "engine": "E1 explicit-state exploration of Receiver.listen() on a hand-stepped event loop",
    "rule": (
        "for every scenario (max_async_tasks x max_prefetch x max_tasks_to_execute x finite/infinite "
        "stream x message list over {valid-return, valid-raise, malformed, unknown, empty payload, payload equal to the internal end marker, sync task, ackable with slow ack, task raising SystemExit / KeyboardInterrupt}) all orderings of the "
        "external events deliver(k), body(i), stop and timers are explored from quiescent state to "
        "quiescent state with state matching on a fingerprint of the live coroutine frames; level-1 "
        "scenarios add every pair of events injected into the same loop iteration. Oracles: #START<=1 per "
        "message at every event; every taken valid message has started in every quiescent state with "
        "nothing in processing and no pending wake-up, and at return of listen(); junk never starts. "
        "distinct_nontrivial = distinct terminal per-message event logs."
        " Fault-overlap family (mc/fault_overlap.py): message X suffers one fault out of {pre_execute/post_execute/post_save/on_error hook, sync or async ack, result backend} x {RuntimeError, CancelledError, TimeoutError}, backend failing once, body raise/CancelledError/timeout/no-result, malformed/unknown message, broker stream error, while the healthy message Y has suspension points before, inside and after its function and the stop request may arrive at any point; Y (and X where the fault does not prevent it) is invoked exactly once and listen() does not return while a taken message still waits to be invoked (W=None)."
        " Repeated faults (mc/fault_overlap.py::repeats): the same fault k times in a row (k in 3..6; thorough up to 10) on one worker, then healthy messages - a counter, pool, budget or throttle inside the worker must not change what happens at the k-th occurrence."
        " Message kinds 'l' / 't': labels as a kicker sends them (prepared text + labels_types), fully typed and with un-typed labels added later by a client middleware."
        " Finite wait_tasks_timeout (0, 0.3; thorough 0.1 too) with a stop request at any point: a taken message is either still in processing when listen() returns or has been executed."
        " max_async_tasks 0 and -1 (no limit, like None)."
        " Redelivery: two or three deliveries carrying the same task id, overlapping or in sequence - each is executed exactly once."
    ),
    "assumptions": [
        "asyncio semantics as implemented by BaseEventLoop (the loop is a subclass; only clock/selector are replaced)",
        "external events reach the loop at iteration boundaries (true for asyncio I/O, signals, thread completions)",
        "scripted broker is pull-based: a message is 'taken' when the listen() generator passes its yield",
    ],
    "required_counters": ["scenarios", "terminal_states"],
    "bounds": {
        "quick": {"n_max": 3, "A": [None, 1, 2], "P": [0, 1, 2], "N": [None, 1, 2], "L1": "n<=2, A in 1..2, P in 0..1"},
        "thorough": {"n_max": 4, "A": [None, 1, 2, 3], "P": [0, 1, 2], "N": [None, 1, 2, 3], "L1": "n<=3", "L2": "n=2"},
    },
}


def _msgs(word: str) -> List[Dict[str, Any]]:
    return [dict(KINDS[c]) for c in word]


def scenarios(tier: str) -> List[Dict[str, Any]]:
    out: List[Dict[str, Any]] = []
    if tier == "quick":
        As, Ps, Ns = [None, 1, 2], [0, 1, 2], [None, 1, 2]
        words = ["".join(w) for n in (1, 2) for w in itertools.product("vrmu", repeat=n)]
        words += ["".join(w) for w in itertools.product("vm", repeat=3)] + ["vru", "uvr", "rmv"]
        words += ["s", "a", "sv", "vs", "av", "va", "sa", "ms", "am", "svs", "ava"]
        words += ["x", "xv", "vx", "kv", "e", "ev", "ve", "q", "qv", "vq", "vev", "vvvv", "p", "pv", "vp", "l", "lv", "vl", "t", "tl"]
        l1_words = ["v", "vv", "vm", "mv"]
        l1_cfg = [(a, p, n) for a in (1, 2) for p in (0, 1) for n in (None, 1, 2)]
        l2_words: List[str] = []
        l2_cfg: List[Any] = []
    else:
        As, Ps, Ns = [None, 1, 2, 3], [0, 1, 2], [None, 1, 2, 3]
        words = ["".join(w) for n in (1, 2, 3) for w in itertools.product("vrmu", repeat=n)]
        words += ["".join(w) for w in itertools.product("vm", repeat=4)] + ["vrum", "uvrv", "vvvu"]
        words += ["".join(w) for n in (1, 2, 3) for w in itertools.product("vsa", repeat=n) if set(w) & set("sa")]
        words += ["".join(w) for n in (1, 2, 3) for w in itertools.product("vxeq", repeat=n) if set(w) & set("xeq")] + ["kv", "vk", "p", "pv", "vp", "pp", "pvp", "l", "lv", "vl", "t", "tl", "ll", "vlv"]
        l1_words = ["v", "vv", "vm", "mv", "vr", "uv", "vvv", "vmv", "mvv", "vvm"]
        l1_cfg = [(a, p, n) for a in (None, 1, 2) for p in (0, 1, 2) for n in (None, 1, 2)]
        l2_words = ["vv", "vm"]
        l2_cfg = [(a, p, n) for a in (1, 2) for p in (0, 1) for n in (None, 1, 2)]
    for w in words:
        for a, p, n, stream in itertools.product(As, Ps, Ns, ("infinite", "finite")):
            out.append({"A": a, "P": p, "N": n, "stream": stream, "stop": True, "msgs": _msgs(w), "level": 0,
                        "stateless": 9 if (len(w) <= 1 and tier == "thorough") else 0})
    # two completions in one loop iteration with a saturated worker and a filled prefetch queue
    for (a, p) in (((2, 2), (1, 2)) if tier == "quick" else ((2, 2), (1, 2), (2, 3), (3, 2))):
        out.append({"A": a, "P": p, "N": None, "stream": "infinite", "stop": False, "msgs": _msgs("v" * (a + p + 1)), "level": 1,
                    "max_body": a + 1})
    for w in l1_words:
        for (a, p, n) in l1_cfg:
            out.append({"A": a, "P": p, "N": n, "stream": "infinite", "stop": True, "msgs": _msgs(w), "level": 1})
    for w in l2_words:
        for (a, p, n) in l2_cfg:
            out.append({"A": a, "P": p, "N": n, "stream": "infinite", "stop": True, "msgs": _msgs(w), "level": 2})
    # max_async_tasks = 0 (and a negative value) means "no limit", like None
    for w in ("v", "vv", "vvv"):
        for a in (0, -1):
            out.append({"A": a, "P": 0, "N": None, "stream": "infinite", "stop": True, "msgs": _msgs(w), "level": 0})
    # a finite wait_tasks_timeout (0 = do not wait at all): a message taken around the stop request is either
    # still in processing when listen() returns or has been executed - never ended without its function running
    for w in ("v", "vv", "vvv", "av", "sv", "lv"):
        for a, p in ((None, 0), (1, 2), (2, 0), (2, 2)):
            for wt in ((0, 0.3) if tier == "quick" else (0, 0.1, 0.3)):
                out.append({"A": a, "P": p, "N": None, "W": wt, "stream": "infinite", "stop": True, "msgs": _msgs(w), "level": 0})
    # at-least-once delivery: the same task id delivered again (while the first execution is in flight or after
    # it) is one more taken message and is executed once more - no per-id bookkeeping may swallow it
    for w in ("vv", "vr", "vvv", "av", "sv"):
        for a, p in ((None, 0), (2, 1), (1, 1)):
            for stream in ("infinite", "finite"):
                msgs = _msgs(w)
                msgs[-1]["same_id_as"] = 0
                if len(w) == 3:
                    msgs[1]["same_id_as"] = 0
                out.append({"A": a, "P": p, "N": None, "stream": stream, "stop": True, "msgs": msgs, "level": 0})
    out += fault_family(tier)
    return out


def fault_family(tier: str) -> List[Dict[str, Any]]:
    """One fault in message X (hook / ack / backend raising RuntimeError, CancelledError or TimeoutError, body
    outcomes, junk, broker stream error) while the healthy message Y is in flight, with a stop request or a
    max-tasks recycle at any point (mc/fault_overlap.py). The subject is Y: exactly one invocation, not
    abandoned by a worker that returns early. X's own invocation is not demanded (a failing pre_execute hook
    or when_received ack legitimately prevents it) but it must not be invoked twice."""
    from mc import fault_overlap as fo

    out = []
    for n in (None, 2):
        for at in (None, "when_received"):
            for sc in fo.family(tier, ack_types=(at,), a=3, n=n, orders=(True, False) if (tier == "thorough" or (n is None and at is None)) else (True,)):
                sc["relax_x"] = True
                out.append(sc)
    for sc in fo.repeats(tier, ks=(3, 4, 5) if tier == "quick" else (3, 4, 5, 6, 8), tail=2):
        sc["relax_x"] = True
        out.append(sc)
    return out


def shards(tier: str, seed: int) -> List[Any]:
    scs = scenarios(tier)
    # heavier scenarios first so the pool stays balanced
    scs.sort(key=lambda s: (-s["level"], -len(s["msgs"])))
    big = [s for s in scs if s["level"] > 0]
    small = [s for s in scs if s["level"] == 0]
    out = [[s] for s in big]
    out += [small[i : i + 12] for i in range(0, len(small), 12)]
    return out


def run_shard(shard: List[Dict[str, Any]]) -> Dict[str, Any]:
    acc = run_scenarios("C01", shard, RecvWorld)
    return acc.as_dict()


def replay(obj: Dict[str, Any]) -> int:
    return _replay(obj, RecvWorld)
