"""C15 - the scheduler loop sends each due schedule once per occurrence, minute after minute (E1)."""
from __future__ import annotations

import datetime as dt
import itertools
from typing import Any, Dict, List, Optional, Tuple

from mc import cronref
from mc.common import Acc
from mc.recv_driver import replay as _replay
from mc.recv_driver import run_scenarios
from mc.sched_world import BASE, MIN_US, SchedWorld

SEC = 1_000_000
SLACK_US = 2 * SEC  # judged one-shots must be due at least this long before the horizon

META = {
    "kind": "graph",
    "engine": "E1: real run_scheduler_loop() (also entered through run_scheduler_task and the CLI's run_scheduler) on a hand-stepped loop whose virtual clock is also the wall clock (run.datetime patched)",
    "rule": (
        "start instant in {:00.0, :00.5, :29.3, :59.0, :59.5, :59.999}; horizon 3 (quick) / 5 (thorough) virtual minutes; "
        "1-3 sources (scripted list sources that drop a fired one-shot in post_send, and the real LabelScheduleSource); "
        "schedule sets of <= 3 drawn from {'* * * * *', '*/2 * * * *', a fixed minute, one-shots at start-10 s, mid-minute, "
        "and minute boundary + d for d in {-1.5,-1,-0.5,0,+0.5,+1,+1.5} s}; kick latency in {0, 0.4 s, 1.5 s}; per-source listing latency (not straddling a boundary); add/remove of a "
        "schedule at a chosen poll; faults: every subset of <= 2 of the get_schedules()/kick() calls raises. The explorer "
        "enumerates every order of timers with equal deadline (level 0) and both timers in one loop iteration (level 1). "
        "Oracle on the event log at the horizon: every source is polled at start and at every minute boundary (+-0) and at "
        "no other instant; per (cron schedule, polled minute) #sends = [expression matches, by an independent matcher]; per "
        "one-shot exactly one send, not before its time and within 1 s after it (at the first poll that lists it when "
        "already past); an injected fault removes only its own occurrence. distinct_nontrivial = distinct event logs at the horizon."
        " Three to five one-shots of one source, all with a positive delay after the same poll."
        " Schedules carrying both a cron expression and a time, in a list source and in the label source."
        " A schedule whose cron expression cannot be parsed, listed before valid ones in a list source and in the label source (it is skipped, the others are unaffected). A loop under test that keeps the event loop busy without ever sleeping is reported as the violation event-loop-never-sleeps."
    ),
    "assumptions": [
        "timers fire exactly at their deadline (never early) and the wall clock equals the loop clock; local zone is UTC",
    ],
    "required_counters": ["scenarios", "terminal_states", "oneshots_judged", "cron_minutes_judged"],
    "bounds": {"quick": {"horizon_min": 3, "sets": "<=2 schedules (+ selected triples)", "faults": "<=2 on a reduced list"},
               "thorough": {"horizon_min": 5, "sets": "<=3 schedules", "faults": "<=2"}},
}


class C15World(SchedWorld):
    judged_oneshots = 0
    judged_cron = 0

    def metrics(self) -> Dict[str, int]:
        return {"oneshots": self.judged_oneshots, "cron": self.judged_cron}

    # ---- reference data ------------------------------------------------------------
    def expected_polls(self) -> List[int]:
        start = self.sc.get("start_us", 0)
        end = start + self.horizon_us
        out = [start]
        b = (start // MIN_US + 1) * MIN_US
        while b <= end:
            out.append(b)
            b += MIN_US
        return out

    def listing(self, si: int, n: int) -> Optional[List[Dict[str, Any]]]:
        """Schedules source si lists at its n-th call, None if that call fails."""
        sp = self.sc["sources"][si]
        items = list(sp.get("schedules", []))
        for (pn, op, what) in sorted(sp.get("edits", []), key=lambda e: e[0]):
            if pn <= n:
                if op == "add":
                    items.append(what)
                else:
                    items = [s for s in items if s["tag"] != what]
        if n in sp.get("fail_polls", ()):
            return None
        return items

    livelock_is_violation = True  # the loop must sleep to the next minute boundary between polls

    def check_terminal(self) -> None:
        start = self.sc.get("start_us", 0)
        end = start + self.horizon_us
        exp = self.expected_polls()
        nsrc = len(self.sc["sources"])
        # 1. poll instants
        for si in range(nsrc):
            got = [t for (s, n, t) in self.polls if s == si]
            if got != exp:
                self.flag(
                    "C15:poll-instants",
                    f"source {si} polled at {[t/1e6 for t in got]} s, expected {[t/1e6 for t in exp]} s (start {start/1e6})",
                )
                return
        kicks = self.kicks
        lat = self.sc.get("latency_us", 0)
        # all sources are listed concurrently; schedules are evaluated when the slowest has answered
        list_lat = max([sp.get("list_latency_us", 0) for sp in self.sc["sources"]] or [0])
        # 2. cron schedules, per polled minute
        all_specs: Dict[str, Dict[str, Any]] = {}
        for si in range(nsrc):
            for n, tp in enumerate(exp):
                items = self.listing(si, n)
                for spec in items or []:
                    all_specs.setdefault(spec["tag"], spec)
                if items is None:
                    items = []
                listed_cron = {s["tag"]: s for s in items if "cron" in s}
                every_cron = {s["tag"] for s in (self.sc["sources"][si].get("schedules", []) + [e[2] for e in self.sc["sources"][si].get("edits", []) if e[1] == "add"]) if "cron" in s}
                minute = tp // MIN_US
                if tp + list_lat + lat > end:
                    continue  # the listing started at this poll does not complete inside the horizon
                for tag in every_cron:
                    here = [k for k in kicks if k["tag"] == tag and k["t"] // MIN_US == minute]
                    want = 0
                    if tag in listed_cron:
                        when = BASE + dt.timedelta(microseconds=tp)
                        want = 0 if listed_cron[tag].get("invalid") else (1 if cronref.matches(listed_cron[tag]["cron"], when) else 0)
                    self.judged_cron += 1
                    if len(here) != want:
                        self.flag(
                            "C15:cron-count",
                            f"cron schedule {tag} ({all_specs.get(tag, {}).get('cron')}) was sent {len(here)} times in minute "
                            f"{(BASE + dt.timedelta(microseconds=tp)).strftime('%H:%M')} (poll at {tp/1e6} s), expected {want}",
                        )
                    for k in here:
                        if k["t"] != tp + list_lat:
                            self.flag("C15:cron-late", f"cron schedule {tag} sent at {k['t']/1e6} s, its poll was at {tp/1e6} s (listing takes {list_lat/1e6} s)")
        # 3. one-shot schedules
        for si in range(nsrc):
            sp = self.sc["sources"][si]
            specs = [s for s in sp.get("schedules", []) if "at_us" in s and "cron" not in s] + [e[2] for e in sp.get("edits", []) if e[1] == "add" and "at_us" in e[2] and "cron" not in e[2]]
            for spec in specs:
                self._judge_oneshot(si, spec, exp, end, lat)

    def _judge_oneshot(self, si: int, spec: Dict[str, Any], exp: List[int], end: int, lat: int) -> None:
        tag, T = spec["tag"], spec["at_us"]
        mine = [k for k in self.kicks if k["tag"] == tag]
        # first poll that lists it successfully
        first = None
        for n, tp in enumerate(exp):
            items = self.listing(si, n)
            if items is not None and any(s["tag"] == tag for s in items):
                first = (n, tp)
                break
        # arming poll: first successful listing poll p with T <= next boundary after p + 1 s
        arm = None
        for n, tp in enumerate(exp):
            items = self.listing(si, n)
            if items is None or not any(s["tag"] == tag for s in items):
                continue
            horizon = (tp // MIN_US + 1) * MIN_US + SEC
            if T <= horizon:
                arm = (n, tp)
                break
        if arm is None:
            if mine:
                self.flag("C15:oneshot-unexpected-send", f"one-shot {tag} (T={T/1e6} s) sent at {[k['t']/1e6 for k in mine]} although no poll could arm it")
            return
        list_lat = max([sp.get("list_latency_us", 0) for sp in self.sc["sources"]] or [0])
        arm = (arm[0], arm[1] + list_lat)  # schedules are evaluated when the listing completes
        due = max(T, arm[1])  # already past at its first listing -> due at that poll
        if due + SEC + SLACK_US + lat > end:
            # too close to the horizon to judge completeness; still never early
            for k in mine:
                if k["t"] < T and k["t"] < due:
                    self.flag("C15:oneshot-early", f"one-shot {tag} (T={T/1e6} s) sent early at {k['t']/1e6} s")
            return
        self.judged_oneshots += 1
        failed = [k for k in mine if k["ok"] is False]
        oks = [k for k in mine if k["ok"]]
        if not mine:
            self.flag("C15:oneshot-missed", f"one-shot {tag} (T={T/1e6} s, armed by the poll at {arm[1]/1e6} s) was never sent")
            return
        k0 = mine[0]
        if T > arm[1]:
            if k0["t"] < T:
                self.flag("C15:oneshot-early", f"one-shot {tag} (T={T/1e6} s) sent early at {k0['t']/1e6} s")
            elif k0["t"] >= T + SEC:
                self.flag("C15:oneshot-late", f"one-shot {tag} (T={T/1e6} s) sent at {k0['t']/1e6} s, more than 1 s late")
        elif k0["t"] != arm[1]:
            self.flag("C15:oneshot-late", f"one-shot {tag} already past (T={T/1e6} s) at the poll of {arm[1]/1e6} s but sent at {k0['t']/1e6} s")
        if failed:
            if len(oks) > 1:
                self.flag("C15:oneshot-duplicate", f"one-shot {tag} delivered {len(oks)} times after a failed send")
            return
        if len(mine) > 1:
            # D8: extra sends produced by polls that ran while the first send was still pending
            idx_arm = self._log_index(("POLL", si, arm[0]))
            idx_done = self._log_index_post_send(tag)
            polls_between = [
                e for j, e in enumerate(self.log)
                if e[0] == "POLL" and e[1] == si and j > idx_arm and (idx_done is None or j < idx_done)
            ]
            if len(mine) - 1 <= len(polls_between):
                self.flag(
                    "C15:D8-oneshot-sent-again-by-poll-while-first-send-pending",
                    f"one-shot {tag} (T={T/1e6} s) sent {len(mine)} times at {[k['t']/1e6 for k in mine]} s: armed by the poll at "
                    f"{arm[1]/1e6} s and listed again by {len(polls_between)} later poll(s) before its post_send",
                )
            else:
                self.flag("C15:oneshot-duplicate", f"one-shot {tag} (T={T/1e6} s) sent {len(mine)} times at {[k['t']/1e6 for k in mine]} s")

    def _log_index(self, prefix: Tuple[Any, ...]) -> int:
        for j, e in enumerate(self.log):
            if e[: len(prefix)] == prefix:
                return j
        return -1

    def _log_index_post_send(self, tag: str) -> Optional[int]:
        for j, e in enumerate(self.log):
            if e[0] == "POST_SEND" and e[1] == tag:
                return j
        return None


# ------------------------------------------------------------------------------------ scenarios

STARTS = [0, 500_000, 29_300_000, 59_000_000, 59_500_000, 59_999_000]
LAT = [0, 400_000, 1_500_000]


def sched_alphabet(start_us: int) -> List[Dict[str, Any]]:
    b1 = (start_us // MIN_US + 1) * MIN_US  # first boundary after start
    b2 = b1 + MIN_US
    out = [
        {"tag": "every", "cron": "* * * * *"},
        {"tag": "even", "cron": "*/2 * * * *"},
        {"tag": "fixed", "cron": f"{(30 + b2 // MIN_US) % 60} 12 * * *"},
        {"tag": "past", "at_us": start_us - 10 * SEC},
        {"tag": "mid", "at_us": b1 + 30 * SEC + 250_000},
    ]
    for d in (-1_500_000, -1_000_000, -500_000, 0, 500_000, 1_000_000, 1_500_000):
        out.append({"tag": f"b{d//1000:+d}ms", "at_us": b2 + d})
    return out


def scenarios(tier: str) -> List[Dict[str, Any]]:
    out: List[Dict[str, Any]] = []
    hz = 3 if tier == "quick" else 5
    for start in STARTS:
        alpha = sched_alphabet(start)
        sets: List[Tuple[Dict[str, Any], ...]] = [(a,) for a in alpha]
        sets += list(itertools.combinations(alpha, 2))
        if tier == "thorough":
            sets += list(itertools.combinations(alpha, 3))
        else:
            sets += [c for c in itertools.combinations(alpha, 3) if sum("cron" in x for x in c) >= 2][:12]
        for st in sets:
            for lat in LAT:
                if tier == "quick" and len(st) >= 2 and lat == 400_000 and start in (500_000, 29_300_000):
                    continue
                # distribute over 1..3 list sources
                nsrc = min(len(st), 1 + (len(out) % 3))
                srcs = [{"kind": "list", "schedules": []} for _ in range(nsrc)]
                for j, s in enumerate(st):
                    srcs[j % nsrc]["schedules"].append(s)
                out.append({"start_us": start, "horizon_min": hz, "latency_us": lat, "sources": srcs, "level": 0})
        # three to five one-shots of ONE source, all with a positive delay after the same poll
        b1 = (start // MIN_US + 1) * MIN_US
        for offs in ((10, 20, 40), (10, 10, 30), (5, 10, 20, 40), (3, 6, 12, 24, 48)):
            shots = [{"tag": f"d{j}_{o}", "at_us": b1 + o * SEC + 250_000} for j, o in enumerate(offs)]
            out.append({"start_us": start, "horizon_min": hz, "latency_us": 0, "level": 0,
                        "sources": [{"kind": "list", "schedules": shots + [alpha[0]]}]})
        # schedules that carry both a cron expression and a time (past / within the next minute): the cron
        # expression alone decides, in a list source and in the label source
        both = [{"tag": "both_past", "cron": "*/2 * * * *", "at_us": start - 10 * SEC},
                {"tag": "both_soon", "cron": f"{(31 + b1 // MIN_US) % 60} * * * *", "at_us": b1 + 20 * SEC}]
        for kind in ("list", "label"):
            out.append({"start_us": start, "horizon_min": hz, "latency_us": 0, "level": 0,
                        "sources": [{"kind": kind, "schedules": both + [alpha[4]]}]})
        # a schedule whose cron expression cannot be parsed, listed before valid ones: it is skipped, the others
        # of the same source are not affected
        bad = {"tag": "bad", "cron": "every minute please", "invalid": True}
        for kind in ("list", "label"):
            out.append({"start_us": start, "horizon_min": hz, "latency_us": 0, "level": 0,
                        "sources": [{"kind": kind, "schedules": [bad, alpha[0], alpha[4]]}, {"kind": "list", "schedules": [alpha[1], bad]}]})
        # real LabelScheduleSource
        for st in [(alpha[0], alpha[4]), (alpha[8],), (alpha[3], alpha[6], alpha[2]), (alpha[9], alpha[10])]:
            for lat in (0, 400_000):
                out.append({"start_us": start, "horizon_min": hz, "latency_us": lat, "level": 0,
                            "sources": [{"kind": "label", "schedules": list(st)}, {"kind": "list", "schedules": [alpha[1]]}]})
        # the same loop entered through the programmatic API and through the CLI entry point
        for entry in ("api", "cli"):
            for st in [(alpha[0], alpha[4]), (alpha[1], alpha[9], alpha[3])]:
                out.append({"start_us": start, "horizon_min": hz, "latency_us": 400_000, "level": 0, "entry": entry,
                            "sources": [{"kind": "list", "schedules": list(st)}]})
        # slow sources: listing takes time (different per source); listings that would straddle a minute
        # boundary are outside the property's quantifier and are not generated
        for lats in [(300_000, 0), (0, 200_000), (250_000, 400_000)]:
            if (start % MIN_US) + max(lats) >= MIN_US:
                continue
            out.append({"start_us": start, "horizon_min": hz, "latency_us": 0, "level": 0,
                        "sources": [{"kind": "list", "schedules": [alpha[0], alpha[4]], "list_latency_us": lats[0]},
                                    {"kind": "list", "schedules": [alpha[1], alpha[8]], "list_latency_us": lats[1]}]})
        # the process' local zone (naive now() used for the sleep) must not matter
        for st in [(alpha[0], alpha[8]), (alpha[2], alpha[4], alpha[3])]:
            out.append({"start_us": start, "horizon_min": hz, "latency_us": 0, "level": 0, "local_offset_min": 330,
                        "sources": [{"kind": "list", "schedules": list(st)}]})
        # level 1 (two timers in one iteration) on boundary one-shots
        for s in alpha[6:10]:
            out.append({"start_us": start, "horizon_min": hz, "latency_us": 400_000, "level": 1,
                        "sources": [{"kind": "list", "schedules": [alpha[0], s]}]})
        # dynamic add / remove
        for n in (1, 2):
            out.append({"start_us": start, "horizon_min": hz, "latency_us": 0, "level": 0,
                        "sources": [{"kind": "list", "schedules": [alpha[0]], "edits": [[n, "add", alpha[3]], [n, "remove", "every"]]},
                                    {"kind": "list", "schedules": [alpha[1]], "edits": [[n, "add", dict(alpha[4], tag="mid2")]]}]})
        # faults: every subset of <= 2 of the get_schedules / kick calls
        base_srcs = [[alpha[0], alpha[8]], [alpha[1], alpha[4]]]
        npolls = hz + 1
        calls = [("poll", si, n) for si in range(2) for n in range(npolls)] + [("kick", k) for k in range(6)]
        subsets = [(c,) for c in calls] + (list(itertools.combinations(calls, 2)) if (tier == "thorough" or start in (0, 59_500_000)) else [])
        if tier == "quick":
            subsets = subsets[:: 3 if len(subsets) > 40 else 1]
        for sub in subsets:
            srcs = [{"kind": "list", "schedules": list(base_srcs[si]), "fail_polls": [c[2] for c in sub if c[0] == "poll" and c[1] == si]} for si in range(2)]
            out.append({"start_us": start, "horizon_min": hz, "latency_us": 0, "level": 0, "sources": srcs,
                        "fail_kicks": [c[1] for c in sub if c[0] == "kick"]})
    return out


def shards(tier: str, seed: int) -> List[Any]:
    scs = scenarios(tier)
    return [scs[i : i + 25] for i in range(0, len(scs), 25)]


def _per(sc: Dict[str, Any], res: Any, acc: Acc) -> None:
    acc.count("oneshots_judged", res.maxima.get("oneshots", 0))
    acc.count("cron_minutes_judged", res.maxima.get("cron", 0))


def run_shard(shard: List[Dict[str, Any]]) -> Dict[str, Any]:
    return run_scenarios("C15", shard, C15World, per_scenario=_per).as_dict()


def replay(obj: Dict[str, Any]) -> int:
    return _replay(obj, C15World)
