"""C11 - retry middleware re-sends a failing task a bounded number of times (E3, closed loop)."""
from __future__ import annotations

import itertools
from typing import Any, Dict, List, Tuple

from mc.common import Acc, setup_repo_path

setup_repo_path()
from taskiq import Context, TaskiqDepends  # noqa: E402  (needed in module globals for get_type_hints)

MAX_ATTEMPTS = 8
USER_LABELS = {"u_int": 7, "u_str": "x", "u_float": 1.5, "u_bool": True, "u_bytes": b"ab"}

META = {
    "kind": "graph",
    "engine": "E3 explicit-state enumeration of attempt histories through the real kick -> encode -> Receiver.callback -> SimpleRetryMiddleware loop",
    "rule": (
        "closed loop: AsyncKicker.kiq -> formatter bytes -> Receiver.callback (real JSON encode/decode per attempt) with the "
        "real SimpleRetryMiddleware; every per-attempt outcome sequence over {fail, succeed, no-result} up to 8 attempts "
        "(all distinct prefixes up to the first non-fail, and always-fail), max_retries in 0..6 given as int label / str label "
        "/ middleware default, retry_on_error as bool label True/False, str label 'True'/'true'/'False', default True, "
        "default False; no_result_on_retry in {True, False}; with and without user labels of the five primitive types. "
        "Reference model: executions = 1 if retry is disabled or the first outcome is not a failure, else min(index of first "
        "non-fail, max(1, max_retries)); same task id, args and user labels (value and type) on every attempt; no result "
        "stored for re-sent attempts when no_result_on_retry, exactly one for the final attempt, none for no-result. "
        "A second family retries two different messages (own task id, labels, outcome sequence, max_retries) through one "
        "middleware instance with their attempts interleaved and checks each against the same reference (no cross-talk). "
        "states = distinct (configuration, attempt number, stored results) prefixes reached, transitions = task executions."
        " 'X' attempts fail by raising one and the same exception object in every attempt and every case of the process."
    ),
    "assumptions": ["single worker, messages are processed in the order they were kicked"],
    "required_counters": ["cases", "cases_with_retry", "cases_budget_exhausted", "pair_cases"],
    "bounds": {"quick": {"attempts": 8, "max_retries": "0..6; long chains: 7..13 with up to 16 failing attempts"}, "thorough": {"attempts": 8, "max_retries": "0..6 and the long chains, plus two stacked middlewares and pickle serializer"}},
}

SEQS: List[Tuple[str, ...]] = [tuple("F" * k + x) for k in range(MAX_ATTEMPTS) for x in "SN"] + [tuple("F" * MAX_ATTEMPTS)]
# 'C' = the attempt fails with asyncio.CancelledError raised from the task body (a failure like any other)
# 'R' = the attempt fails by rejecting the message (Context.reject() -> TaskRejectedError), also a failure
SEQS += [tuple("CS"), tuple("FCS"), tuple("CCCC"), tuple("CFN"), tuple("RS"), tuple("RRS"), tuple("FRRR")]
# 'X' = the attempt fails by raising one and the same exception *object* every time, in every case of the
# process (a module-level constant, a failed future awaited again): a failure like any other
SEQS += [tuple("XS"), tuple("XXS"), tuple("XXXS"), tuple("XXXX"), tuple("XFXS"), tuple("XXN")]
SHARED_FAILURE = ValueError("attempt failed")
MAXR = [("int", m) for m in range(7)] + [("str", m) for m in range(7)] + [("default", m) for m in range(7)]
ROE = [("bool", True), ("bool", False), ("str", "True"), ("str", "true"), ("str", "False"), ("default", True), ("default", False)]


# long chains: two-digit retry counters (the counter travels as a label through every encode/decode)
LONG_SEQS: List[Tuple[str, ...]] = [tuple("F" * 16), tuple("F" * 9 + "S"), tuple("F" * 10 + "S"), tuple("F" * 12 + "N"), tuple("F" * 13 + "S")]
LONG_MAXR = [(k, m) for k in ("int", "str", "default") for m in (7, 9, 10, 11, 12, 13)]


def cases(tier: str) -> List[Tuple[Any, ...]]:
    out = []
    for seq, mr, roe, nror, ul in itertools.product(SEQS, MAXR, ROE, (True, False), (False, True)):
        out.append((seq, mr, roe, nror, ul, "json"))
    for seq, mr, roe, nror in itertools.product(LONG_SEQS, LONG_MAXR, [("bool", True), ("default", True), ("str", "true")], (True, False)):
        out.append((seq, mr, roe, nror, False, "json"))
    if tier == "thorough":
        for seq, mr, roe, nror in itertools.product(SEQS, MAXR[:7], ROE[:3], (True, False)):
            out.append((seq, mr, roe, nror, True, "pickle"))
    return out


def shards(tier: str, seed: int) -> List[Any]:
    n = len(cases(tier))
    out = [{"tier": tier, "lo": i, "hi": min(i + 700, n)} for i in range(0, n, 700)]
    m = len(pair_cases())
    out += [{"tier": tier, "pairs": True, "lo": i, "hi": min(i + 200, m)} for i in range(0, m, 200)]
    return out


def run_case(case: Tuple[Any, ...], acc: Acc, seen: set) -> None:
    from taskiq.abc.broker import AsyncBroker
    from taskiq.abc.result_backend import AsyncResultBackend
    from taskiq.exceptions import NoResultError
    from taskiq.middlewares.retry_middleware import SimpleRetryMiddleware
    from taskiq.receiver import Receiver
    from taskiq.serializers.pickle import PickleSerializer
    from mc.vloop import run_sync

    seq, (mr_kind, mr), (roe_kind, roe), nror, with_user, ser = case
    pending: List[bytes] = []
    kicked: List[Any] = []
    execs: List[Dict[str, Any]] = []
    stored: List[Tuple[str, Any]] = []

    class B(AsyncBroker):
        async def kick(self, message: Any) -> None:
            kicked.append(message)
            pending.append(message.message)

        async def listen(self):  # pragma: no cover
            yield b""

    class RB(AsyncResultBackend):  # type: ignore[type-arg]
        async def set_result(self, task_id: str, result: Any) -> None:
            stored.append((task_id, result))

        async def is_result_ready(self, task_id: str) -> bool:
            return False

        async def get_result(self, task_id: str, with_logs: bool = False) -> Any:
            raise KeyError(task_id)

    b = B()
    b.result_backend = RB()
    if ser == "pickle":
        b.serializer = PickleSerializer()
    b.add_middlewares(
        SimpleRetryMiddleware(
            default_retry_count=mr if mr_kind == "default" else 3,
            default_retry_label=bool(roe) if roe_kind == "default" else False,
            no_result_on_retry=nror,
        ),
    )

    async def job(a, b_, ctx: Context = TaskiqDepends()):  # noqa: ANN001
        n = len(execs)
        execs.append({"task_id": ctx.message.task_id, "args": (a, b_), "labels": dict(ctx.message.labels)})
        o = seq[n] if n < len(seq) else "F"
        if o == "S":
            return "done"
        if o == "N":
            raise NoResultError()
        if o == "C":
            import asyncio

            raise asyncio.CancelledError()
        if o == "R":
            ctx.reject()
        if o == "X":
            raise SHARED_FAILURE
        raise ValueError("attempt failed")

    job.__module__ = "mc.props.c11"
    task = b.register_task(job, task_name="c11:job")
    labels: Dict[str, Any] = {}
    if mr_kind == "int":
        labels["max_retries"] = mr
    elif mr_kind == "str":
        labels["max_retries"] = str(mr)
    if roe_kind != "default":
        labels["retry_on_error"] = roe
    if with_user:
        labels.update(USER_LABELS)
    rec = Receiver(b, run_startup=False, max_async_tasks=1)

    async def drive() -> None:
        await task.kicker().with_task_id("tid").with_labels(**labels).kiq(1, "two")
        guard = 0
        while pending:
            guard += 1
            if guard > 5 * MAX_ATTEMPTS:
                break
            data = pending.pop(0)
            await rec.callback(data)
            key = (case[1:], len(execs), len(stored))
            if key not in seen:
                seen.add(key)
                acc.states += 1
            acc.transitions += 1

    err = None
    try:
        run_sync(drive())
    except BaseException as exc:
        err = exc
    acc.paths += 1
    acc.count("cases")
    # ---- reference model
    enabled = roe if roe_kind != "str" else (roe.lower() == "true")
    first_nonfail = next((i + 1 for i, o in enumerate(seq) if o not in "FCRX"), None)
    if not enabled or seq[0] not in "FCRX":
        want = 1
    else:
        want = min(first_nonfail if first_nonfail is not None else 10**9, max(1, mr))
    final = seq[want - 1] if want - 1 < len(seq) else "F"
    if want > 1:
        acc.count("cases_with_retry")
    if enabled and seq[0] in "FCRX" and final in "FCRX" and want == max(1, mr) and mr >= 2:
        acc.count("cases_budget_exhausted")
    want_stored = (0 if nror else want - 1) + (0 if final == "N" else 1)
    acc.outcome((want, final, nror, want_stored))
    desc = {"seq": "".join(seq), "max_retries": [mr_kind, mr], "retry_on_error": [roe_kind, roe], "no_result_on_retry": nror, "user_labels": with_user, "serializer": ser}
    if acc.counters["cases"] % 1500 == 1:
        acc.sample({"case": desc, "executions": len(execs), "results_stored": len(stored), "kicks": len(kicked)})
    if err is not None:
        acc.violation("loop-crashed", f"{type(err).__name__}: {err} for {desc}", {"case": list(case)})
        return
    if len(execs) != want:
        acc.violation(
            "too-many-executions" if len(execs) > want else "too-few-executions",
            f"{len(execs)} executions, reference {want} for {desc}",
            {"case": list(case)},
        )
        return
    for k, e in enumerate(execs):
        if e["task_id"] != "tid" or e["args"] != (1, "two"):
            acc.violation("attempt-identity", f"attempt {k + 1} ran with task_id={e['task_id']!r} args={e['args']!r} for {desc}", {"case": list(case)})
        if with_user:
            for name, val in USER_LABELS.items():
                got = e["labels"].get(name, "<missing>")
                if got != val or type(got) is not type(val):
                    acc.violation("user-label-changed", f"attempt {k + 1}: label {name}={got!r} ({type(got).__name__}), sent {val!r} for {desc}", {"case": list(case)})
    if len(stored) != want_stored:
        acc.violation("stored-result-count", f"{len(stored)} results stored, reference {want_stored} for {desc}", {"case": list(case)})
        return
    if final != "N":
        tid, res = stored[-1]
        import asyncio as _aio

        ok = (
            (final == "S" and not res.is_err and res.return_value == "done")
            or (final in "FX" and res.is_err and isinstance(res.error, ValueError))
            or (final == "C" and res.is_err and isinstance(res.error, _aio.CancelledError))
            or (final == "R" and res.is_err and type(res.error).__name__ == "TaskRejectedError")
        )
        if tid != "tid" or not ok:
            acc.violation("final-result-wrong", f"final stored result ({tid}, is_err={res.is_err}, value={res.return_value!r}, error={res.error!r}) does not reflect the final attempt {final} for {desc}", {"case": list(case)})


# ---- two different messages retried through ONE middleware instance (state carried between messages)
PAIR_SEQS = [tuple("S"), tuple("FS"), tuple("FFS"), tuple("FFFF"), tuple("FN")]
PAIR_MR = [1, 2, 3, None]


def pair_cases() -> List[Tuple[Any, ...]]:
    singles = [(sq, mr) for sq in PAIR_SEQS for mr in PAIR_MR]
    return [(a, b, nror) for a in singles for b in singles for nror in (True, False)]


def run_pair(case: Tuple[Any, ...], acc: Acc) -> None:
    from taskiq.abc.broker import AsyncBroker
    from taskiq.abc.result_backend import AsyncResultBackend
    from taskiq.exceptions import NoResultError
    from taskiq.middlewares.retry_middleware import SimpleRetryMiddleware
    from taskiq.receiver import Receiver
    from mc.vloop import run_sync

    (seq_a, mr_a), (seq_b, mr_b), nror = case
    cfg = {"A": (seq_a, mr_a), "B": (seq_b, mr_b)}
    pending: List[bytes] = []
    execs: Dict[str, List[Dict[str, Any]]] = {"A": [], "B": []}
    stored: Dict[str, List[Any]] = {"A": [], "B": []}

    class Bk(AsyncBroker):
        async def kick(self, message: Any) -> None:
            pending.append(message.message)

        async def listen(self):  # pragma: no cover
            yield b""

    class RB(AsyncResultBackend):  # type: ignore[type-arg]
        async def set_result(self, task_id: str, result: Any) -> None:
            stored.setdefault(task_id, []).append(result)

        async def is_result_ready(self, task_id: str) -> bool:
            return False

        async def get_result(self, task_id: str, with_logs: bool = False) -> Any:
            raise KeyError(task_id)

    b = Bk()
    b.result_backend = RB()
    b.add_middlewares(SimpleRetryMiddleware(default_retry_count=3, default_retry_label=False, no_result_on_retry=nror))

    async def job(who, ctx: Context = TaskiqDepends()):  # noqa: ANN001
        tid = ctx.message.task_id
        n = len(execs.setdefault(tid, []))
        execs[tid].append({"who": who, "labels": dict(ctx.message.labels)})
        seq = cfg[tid][0] if tid in cfg else ("S",)
        o = seq[n] if n < len(seq) else "F"
        if o == "S":
            return "done-" + tid
        if o == "N":
            raise NoResultError()
        raise ValueError("attempt failed " + tid)

    job.__module__ = "mc.props.c11"
    task = b.register_task(job, task_name="c11:pairjob")
    rec = Receiver(b, run_startup=False, max_async_tasks=1)

    async def drive() -> None:
        for tid in ("A", "B"):
            labels: Dict[str, Any] = {"retry_on_error": True, "owner": tid}
            if cfg[tid][1] is not None:
                labels["max_retries"] = cfg[tid][1]
            await task.kicker().with_task_id(tid).with_labels(**labels).kiq(tid)
        guard = 0
        while pending and guard < 40:
            guard += 1
            await rec.callback(pending.pop(0))
            acc.transitions += 1

    err = None
    try:
        run_sync(drive())
    except BaseException as exc:
        err = exc
    acc.paths += 1
    acc.states += 1
    acc.count("pair_cases")
    desc = {"A": ["".join(seq_a), mr_a], "B": ["".join(seq_b), mr_b], "no_result_on_retry": nror}
    rp = {"pair": [list(map(list, case[:2])), nror]}
    if err is not None:
        acc.violation("pair-loop-crashed", f"{type(err).__name__}: {err} for {desc}", rp)
        return
    for tid in ("A", "B"):
        seq, mr = cfg[tid]
        m = 3 if mr is None else mr
        first_nonfail = next((i + 1 for i, o in enumerate(seq) if o != "F"), 10**9)
        want = 1 if seq[0] != "F" else min(first_nonfail, max(1, m))
        got = execs.get(tid, [])
        acc.outcome(("pair", tid, want))
        if len(got) != want:
            acc.violation("pair-execution-count", f"message {tid} executed {len(got)} times, reference {want}, when retried next to another message: {desc}", rp)
            return
        for k, e in enumerate(got):
            if e["who"] != tid or e["labels"].get("owner") != tid or (mr is not None and e["labels"].get("max_retries") != mr):
                acc.violation("pair-crosstalk", f"attempt {k + 1} of message {tid} ran with args/labels of another message: {e} for {desc}", rp)
                return
        final = seq[want - 1] if want - 1 < len(seq) else "F"
        want_stored = (0 if nror else want - 1) + (0 if final == "N" else 1)
        if len(stored.get(tid, [])) != want_stored:
            acc.violation("pair-stored-count", f"message {tid}: {len(stored.get(tid, []))} results stored, reference {want_stored} for {desc}", rp)
            return
    if set(execs) - {"A", "B"} or set(stored) - {"A", "B"}:
        acc.violation("pair-foreign-task-id", f"executions/results under unexpected task ids {sorted(set(execs) | set(stored))} for {desc}", rp)


def run_shard(shard: Dict[str, Any]) -> Dict[str, Any]:
    if shard.get("pairs"):
        acc = Acc()
        for c in pair_cases()[shard["lo"] : shard["hi"]]:
            run_pair(c, acc)
        return acc.as_dict()
    acc = Acc()
    seen: set = set()
    cs = cases(shard["tier"])
    for c in cs[shard["lo"] : shard["hi"]]:
        run_case(c, acc, seen)
    return acc.as_dict()


def replay(obj: Dict[str, Any]) -> int:
    def tup(x: Any) -> Any:
        return tuple(tup(y) for y in x) if isinstance(x, list) else x

    acc = Acc()
    if "pair" in obj:
        a, b = obj["pair"][0]
        run_pair(((tuple(a[0]), a[1]), (tuple(b[0]), b[1]), obj["pair"][1]), acc)
    else:
        run_case(tup(obj["case"]), acc, set())
        if not acc.violations:
            # the check runs its cases one after the other in one process: a violation may depend on what an
            # earlier case left behind (e.g. on the shared exception object); the closest predecessor
            # is the same case, so run it a second time
            print("(no violation on the first run in a fresh process; running the same case again in this process)")
            run_case(tup(obj["case"]), acc, set())
    for k, v in acc.violations.items():
        print("oracle:", k, "-", v["message"])
    return 1 if acc.violations else 0
