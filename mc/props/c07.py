"""C07 - the stored result faithfully reflects the outcome of the execution (E1)."""
from __future__ import annotations

import itertools
from typing import Any, Dict, List

from mc.common import Acc
from mc.recv_driver import replay as _replay
from mc.recv_driver import mark_stateless, run_scenarios
from mc.recv_world import RecvWorld, _exc_table

VALUES: List[Any] = [None, 0, "", "text", 1.5, [1, [2, {"k": None}]], {"a": {"b": [True, False]}}, False]
EXCS = ["ValueError", "KeyError", "CustomError", "CustomBase", "KeyboardInterrupt", "SystemExit", "GeneratorExit", "CancelledError", "TimeoutError"]
LABELS: List[Dict[str, Any]] = [{}, {"x": "1", "retry_on_error": "False"}]

META = {
    "kind": "graph",
    "engine": "E1 explicit-state exploration of Receiver.listen()/callback() on a hand-stepped event loop",
    "rule": (
        "per message: flavour (async coroutine, sync via a fake executor) x outcome (return v for v in a value "
        "alphabet incl. None/0/''/False/nested; raise E for E in {ValueError, KeyError, custom Exception, custom "
        "BaseException, KeyboardInterrupt, SystemExit, GeneratorExit, CancelledError, TimeoutError}; NoResultError; "
        "timeout label T in {0.2, 0.3, 0.4} with never-ending body, and with a gated body so that completion and the "
        "timeout timer are explored in both orders and in the same loop iteration) x labels; sequences of 2-3 "
        "messages with the result backend failing on every subset of saves. Oracle at the end of each message's "
        "processing: number of set_result calls is 1 (0 for no-result); stored is_err / return_value / type(error) / "
        "error args / labels equal the scripted outcome (TimeoutError iff the body was cancelled by the timeout); "
        "after a failed save the message still completes and every later message is processed and stored. "
        "distinct_nontrivial = distinct terminal per-message logs."
        " Fault-overlap family (mc/fault_overlap.py): message X suffers one fault out of {pre_execute/post_execute/post_save/on_error hook, sync or async ack, result backend} x {RuntimeError, CancelledError, TimeoutError}, backend failing once, body raise/CancelledError/timeout/no-result, malformed/unknown message, broker stream error, while the healthy message Y has suspension points before, inside and after its function and the stop request may arrive at any point; Y's result is stored exactly once and reflects its outcome, so is X's for body outcomes and backend failures with an Exception; X is exempt for hook / ack faults, CancelledError from the backend and junk."
        " Repeated faults (mc/fault_overlap.py::repeats): the same fault k times in a row (k in 3..6; thorough up to 10) on one worker, then healthy messages - a counter, pool, budget or throttle inside the worker must not change what happens at the k-th occurrence. The healthy messages' results must be stored."
        " Typed and partially typed wire labels (incl. an un-typed timeout label): the stored labels equal the sent ones in value and type and the timeout is enforced."
        " Sync functions on an executor that pickles callable and arguments (as a process pool does), the task being an importable module-level function."
    ),
    "assumptions": [
        "sync tasks run on a fake executor: completion is an explorer event; in the 'threads' scenarios each sync function runs on a real thread under a strict baton hand-off (entering and leaving the function are separate explorer events, so executions overlap), otherwise atomically with no thread",
        "StopIteration/StopAsyncIteration outcomes are excluded: CPython converts them before taskiq sees them",
    ],
    "required_counters": ["wiring_cases", "scenarios", "terminal_states", "results_checked"],
    "bounds": {"quick": {"n_max": 2, "L1": "timeout races"}, "thorough": {"n_max": 3, "L1": "timeout races, pairs", "L2": "single timeout race"}},
}


class C07World(RecvWorld):
    results_checked = 0

    def metrics(self) -> Dict[str, int]:
        m = super().metrics()
        m["results_checked"] = self.results_checked
        return m

    def expected(self, i: int) -> List[Any]:
        """Acceptable stored outcomes: ('none',) | ('value', v) | ('error', typename, args)."""
        m = self.msgs[i]
        ends = [e for e in self.per[i] if e[0] == "END"]
        scripted: Any
        if m["outcome"] == "return":
            scripted = ("value", m["value"])
        elif m["outcome"] == "raise":
            scripted = ("error", m["exc"], ("boom", i))
        elif m["outcome"] == "noresult":
            scripted = ("none",)
        else:
            scripted = None  # never-ending body
        timeout = ("error", "TimeoutError", None)
        if m["timeout"] is None:
            return [scripted]
        cancelled = any(e[1].startswith("cancelled") for e in ends)
        if m["flavour"] == "async":
            # the coroutine either saw the cancellation of the timeout or finished
            return [timeout] if (cancelled or scripted is None) else [scripted]
        # sync function on an executor: it cannot be interrupted; the outcome is decided by
        # whether its completion reached the loop before the timeout timer. When the timer
        # fired for this message and the function also ran, both arrived in the same loop
        # iteration (exact tie): either outcome is acceptable.
        timer_fired = any(
            ev[0] == "TIMER" and "Timeout._on_timeout" in repr(ev[1]) and repr(("callback", i)) in repr(ev[1])
            for ev in self.log
        )
        if not ends:
            return [timeout]
        return [scripted, timeout] if timer_fired else [scripted]

    def on_event(self, ev: Any) -> None:
        super().on_event(ev)
        if ev[0] != "CB_E" or self.closed:
            return
        i = ev[1]
        m = self.msgs[i]
        if m["kind"] != "valid" or self.relaxed(i):
            return
        self.results_checked += 1
        saves = [r for (k, r) in self.saved if k == i]
        exps = self.expected(i)
        tag = f"message {i} ({m['flavour']}, outcome={m['outcome']}/{m.get('exc') if m['outcome']=='raise' else m.get('value')!r}, timeout={m['timeout']})"
        problems = [self._judge(i, m, saves, exp, tag) for exp in exps]
        if all(p is not None for p in problems):
            key, msg = problems[0]
            self.flag(key, msg)

    def _judge(self, i: int, m: Dict[str, Any], saves: List[Any], exp: Any, tag: str) -> Any:
        if exp[0] == "none":
            if saves:
                return ("C07:result-stored-for-no-result", f"{tag}: {len(saves)} results stored")
            return None
        if len(saves) != 1:
            key = "C07:no-result-stored" if not saves else "C07:result-stored-twice"
            if not saves and m["exc"] == "GeneratorExit" and m["flavour"] == "sync" and m["outcome"] == "raise":
                key = "C07:D12-sync-generatorexit-kills-callback"
            return (key, f"{tag}: {len(saves)} set_result calls; log {self.per[i]}")
        r = saves[0]
        want_labels = dict(m.get("labels") or {})
        if m["timeout"] is not None:
            want_labels["timeout"] = m["timeout"]
        if i in self.expected_labels:
            want_labels = dict(self.expected_labels[i])
        if r.labels != want_labels or any(type(r.labels[k]) is not type(v) for k, v in want_labels.items()):
            return ("C07:labels-differ", f"{tag}: stored labels {r.labels!r} != message labels {want_labels!r}")
        if exp[0] == "value":
            if r.is_err or r.error is not None:
                return ("C07:success-stored-as-error", f"{tag}: is_err={r.is_err} error={r.error!r}")
            if r.return_value != exp[1] or type(r.return_value) is not type(exp[1]):
                return ("C07:wrong-return-value", f"{tag}: stored {r.return_value!r}")
            return None
        cls = _exc_table()[exp[1]]
        if not r.is_err:
            return ("C07:error-stored-as-success", f"{tag}: is_err false, error={r.error!r}, value={r.return_value!r}")
        if type(r.error) is not cls and not (exp[1] == "TimeoutError" and isinstance(r.error, TimeoutError)):
            return ("C07:wrong-error", f"{tag}: stored error {r.error!r} ({type(r.error).__name__}), expected {exp[1]}")
        if exp[2] is not None and tuple(r.error.args) != tuple(exp[2]):
            return ("C07:wrong-error-args", f"{tag}: stored args {r.error.args!r}")
        if r.return_value is not None:
            return ("C07:error-with-return-value", f"{tag}: return_value={r.return_value!r}")
        return None

    def after_step(self) -> None:
        super().after_step()
        # a failing backend must not prevent the message from completing: an ackable message whose
        # callback has ended has been acknowledged
        for i in self.cb_done:
            m = self.msgs[i]
            if m["ack"] is not None and m["kind"] == "valid" and not self.relaxed(i) and not any(e[0] == "ACK_E" for e in self.per[i]) and i not in getattr(self, "_ack_flagged", set()):
                self.__dict__.setdefault("_ack_flagged", set()).add(i)
                self.flag("C07:processing-ended-without-ack", f"message {i} (save_fails={m['save_fails']}) finished processing but was never acknowledged: {self.per[i]}")

    def check_quiescent(self) -> None:
        super().check_quiescent()
        # progress after failures: when only timers (or nothing) are enabled, every delivered
        # message of a finite stream has been processed
        menu = self.enabled()
        if all(e[0] == "timer" for e in menu) and (self.ret or not menu):
            for k in self.taken:
                if k not in self.cb_done and self.msgs[k]["outcome"] != "never":
                    self.flag("C07:message-not-completed", f"message {k} never completed processing; done={self.cb_done}")


def _m(flavour: str, **kw: Any) -> Dict[str, Any]:
    d = {"flavour": flavour, "gates": []}
    d.update(kw)
    return d


def singles(tier: str) -> List[Dict[str, Any]]:
    out = []
    for fl in ("async", "sync"):
        for v in VALUES:
            out.append(_m(fl, value=v))
        for e in EXCS:
            out.append(_m(fl, outcome="raise", exc=e))
        out.append(_m(fl, outcome="noresult"))
        for t in (0.2, 0.3, 0.4):
            out.append(_m(fl, outcome="never", timeout=t))
            out.append(_m(fl, timeout=t, value="late"))
            out.append(_m(fl, timeout=t, outcome="raise"))
    return out


def _sc(msgs: List[Dict[str, Any]], level: int, a: Any = 2) -> Dict[str, Any]:
    return {"A": a, "P": 0, "N": None, "stream": "finite", "stop": False, "level": level, "msgs": msgs}


def scenarios(tier: str) -> List[Dict[str, Any]]:
    out: List[Dict[str, Any]] = []
    for m in singles(tier):
        for lab in LABELS:
            mm = dict(m, labels=lab)
            out.append(_sc([mm], 0))
            if m.get("timeout") is not None:
                out.append(_sc([mm], 1))
                if tier == "thorough":
                    out.append(_sc([mm], 2))
    # labels as a kicker sends them (prepared text + types), fully typed and with un-typed late additions
    for typed in ("all", "partial"):
        for m in (_m("async", value=1), _m("async", outcome="raise"), _m("async", outcome="never", timeout=0.2),
                  _m("async", timeout=0.3, value="late"), _m("sync", value=2)):
            out.append(_sc([dict(m, labels={"x": "1", "n": 3, "f": 1.5, "b": True, "raw": b"\xff"}, typed=typed)], 0))
    # one task name registered again with a function of the other kind (sync <-> async) between executions:
    # each execution's result reflects the function that ran for it
    for f1, f2, f3 in itertools.product(("async", "sync"), repeat=3):
        for o2 in ("return", "raise"):
            sc = _sc([_m(f1, value=1), _m(f2, value=2, outcome=o2), _m(f3, value=3)], 0, a=1)
            sc["reregister"] = True
            out.append(sc)
    # backend failures on every subset of saves, sequences of 2 (quick) / 3 (thorough) messages
    base = [
        _m("async"), _m("async", outcome="raise"), _m("sync", value=7), _m("async", outcome="noresult"),
        _m("async", outcome="never", timeout=0.2),
    ]
    n = 2 if tier == "quick" else 3
    for seq in itertools.product(range(len(base)), repeat=n):
        for fails in itertools.product((False, True), repeat=n):
            if not any(fails):
                continue
            msgs = [dict(base[j], save_fails=f, gates=["save"] if k == 0 else [], ack="sync" if k % 2 == 0 else "async") for k, (j, f) in enumerate(zip(seq, fails))]
            for a in ((1, 2) if n == 2 else (1,)):
                out.append(_sc(msgs, 0, a=a))
    if tier == "thorough":
        for j1, j2 in itertools.product(range(len(base)), repeat=2):
            msgs = [dict(base[j1], timeout=0.3, gates=["save"]), dict(base[j2], save_fails=True)]
            out.append(_sc(msgs, 1))
    # sync functions that really overlap: the executor runs each on its own thread (strict hand-off), so
    # a second function is entered while the first is still inside its body - incl. one that outlived
    # its timeout label and is still running when the next message arrives
    sync_base = [
        _m("sync", value=7), _m("sync", outcome="raise"), _m("sync", outcome="noresult"),
        _m("sync", outcome="never", timeout=0.2), _m("sync", timeout=0.2, value="late"), _m("sync", outcome="raise", exc="CustomBase"),
    ]
    # one fault in message X (hook / ack / backend / body / junk) while Y is in flight, stop request at any
    # point (mc/fault_overlap.py): Y's result is stored exactly once and reflects its outcome; so is X's for
    # the faults the property quantifies over (body outcomes, backend failures with an Exception)
    from mc import fault_overlap as fo

    for a in ((3,) if tier == "quick" else (2, 3)):
        for sc in fo.family(tier, a=a, only=("hook", "ack", "save", "body", "junk"), orders=(True, False) if tier == "thorough" else (True,)):
            k, d = sc["fault"]
            sc["relax_x"] = k in ("hook", "ack", "junk") or (k == "save" and d == "cancel")
            out.append(sc)
    # the same fault 3..5 times in a row, then two healthy messages whose results must be stored
    for sc in fo.repeats(tier, ks=(3, 4, 5) if tier == "quick" else (3, 4, 5, 6, 8), tail=2):
        k, d = sc["fault"]
        sc["relax_x"] = k in ("hook", "ack", "junk") or (k == "save" and d == "cancel")
        out.append(sc)
    for j1, j2 in itertools.product(range(len(sync_base)), repeat=2):
        sc = _sc([dict(sync_base[j1]), dict(sync_base[j2])], 0)
        sc["executor"] = "threads"
        out.append(sc)
    for j in range(len(sync_base)):
        sc = _sc([dict(sync_base[j]), _m("async", value=1), dict(sync_base[0])], 0, a=3)
        sc["executor"] = "threads"
        out.append(sc)
    # sync functions on an executor that pickles what it is given (a process pool)
    for m in (_m("sync", value=42), _m("sync", outcome="raise"), _m("sync", outcome="noresult"), _m("sync", value=[1, {"k": None}], timeout=0.4)):
        sc = _sc([dict(m), _m("async", value=1), dict(m)], 0, a=2)
        sc["executor"] = "pickle"
        out.append(sc)
    if tier == "thorough":
        for js in itertools.product(range(4), repeat=3):
            sc = _sc([dict(sync_base[j]) for j in js], 0, a=3)
            sc["executor"] = "threads"
            out.append(sc)
    return out


def shards(tier: str, seed: int) -> List[Any]:
    return _shards(tier, seed) + [[{"wiring": "C07"}]]


def _shards(tier: str, seed: int) -> List[Any]:
    scs = scenarios(tier)
    if tier == "thorough":
        mark_stateless(scs, 8, 12)
    scs.sort(key=lambda s: (-s["level"], -len(s["msgs"])))
    return [scs[i : i + 10] for i in range(0, len(scs), 10)]


def _per(sc: Dict[str, Any], res: Any, acc: Acc) -> None:
    if res.maxima.get("results_checked", 0):
        acc.count("results_checked")


def run_shard(shard: List[Dict[str, Any]]) -> Dict[str, Any]:
    if shard and shard[0].get("wiring"):
        from mc.cli_wiring import check_worker_wiring

        acc = Acc()
        check_worker_wiring("C07", acc)
        return acc.as_dict()
    return run_scenarios("C07", shard, C07World, per_scenario=_per).as_dict()


def replay(obj: Dict[str, Any]) -> int:
    return _replay(obj, C07World)
