"""C14 - a one-shot schedule is never sent early and at most one second late.

Bounded-exhaustive enumeration of (now, T, spelling-of-T) against the three-way
case split of the property. See DESIGN.md section 3, C14.
"""
from __future__ import annotations

import datetime as dt
import itertools
from typing import Any, Dict, List

from mc.common import Acc

UTC = dt.timezone.utc
US = dt.timedelta(microseconds=1)
SEC = dt.timedelta(seconds=1)

META = {
    "kind": "inputs",
    "engine": "E3 bounded-exhaustive input enumeration against the property's case split",
    "rule": (
        "every (now, T, spelling) of the stated grid is evaluated with the real "
        "get_task_delay under a scripted clock: family A = all now (minute bases x "
        "second 0..59 x microsecond set) x all T = anchor+delta (7 anchors x whole "
        "seconds -3..+63 x microsecond offsets) spelled naive; family B = now grid x "
        "boundary-focused T set x all 10 spellings (naive, datetime.timezone.utc, "
        "pytz.UTC, fixed +05:45, fixed -03:30, fixed -00:44:30, zoneinfo Europe/Berlin, pytz and zoneinfo "
        "America/New_York, zoneinfo Australia/Lord_Howe); the minute bases include the last minute before each "
        "of three zones repeats an hour (now and T on different folds). A case is distinct "
        "by (now, T, spelling); non-trivial classes counted = distinct (case, delay) "
        "outcomes: past / left-for-later / delay d."
    ),
    "assumptions": [
        "the wall clock is the scripted one (run.datetime patched harness-side); shards run with the process' local zone (TZ) set to UTC, Asia/Tokyo or America/New_York and with naive now() at UTC or UTC+5:30: none of it may matter",
        "small-scope: instants outside the listed minute bases are not evaluated",
    ],
    "bounds": {
        "quick": {"bases": 5, "micro": [0, 1, 499999, 500000, 999999]},
        "thorough": {"bases": 11, "micro": [0, 1, 2, 499999, 500000, 500001, 999998, 999999]},
    },
}

BASES = [
    dt.datetime(2025, 10, 26, 0, 59, tzinfo=UTC),  # last minute before Europe/Berlin repeats 02:00-03:00 (fold)
    dt.datetime(2024, 11, 3, 5, 59, tzinfo=UTC),  # last minute before America/New_York repeats 01:00-02:00
    dt.datetime(2025, 4, 5, 14, 59, tzinfo=UTC),  # last minute before Australia/Lord_Howe falls back by 30 min
    dt.datetime(2024, 3, 10, 6, 59, tzinfo=UTC),  # US DST start day, xx:59
    dt.datetime(2024, 12, 31, 23, 59, tzinfo=UTC),  # year roll-over
    dt.datetime(2025, 10, 26, 0, 30, tzinfo=UTC),  # EU DST end day
    dt.datetime(2024, 2, 29, 12, 0, tzinfo=UTC),
    dt.datetime(2025, 3, 30, 0, 59, tzinfo=UTC),  # EU DST start (01:00 UTC)
    dt.datetime(2026, 6, 15, 17, 42, tzinfo=UTC),
    dt.datetime(2025, 4, 5, 15, 29, tzinfo=UTC),  # Lord Howe DST end
    dt.datetime(2023, 1, 1, 0, 0, tzinfo=UTC),
]


def _spellings():
    import pytz
    from zoneinfo import ZoneInfo

    ny = pytz.timezone("America/New_York")
    return [
        ("naive", lambda t: t.replace(tzinfo=None)),
        ("tz.utc", lambda t: t),
        ("pytz.UTC", lambda t: t.astimezone(pytz.UTC)),
        ("+05:45", lambda t: t.astimezone(dt.timezone(dt.timedelta(hours=5, minutes=45)))),
        ("-03:30", lambda t: t.astimezone(dt.timezone(-dt.timedelta(hours=3, minutes=30)))),
        ("zi:Europe/Berlin", lambda t: t.astimezone(ZoneInfo("Europe/Berlin"))),
        ("pytz:America/New_York", lambda t: t.astimezone(ny)),
        ("zi:Australia/Lord_Howe", lambda t: t.astimezone(ZoneInfo("Australia/Lord_Howe"))),
        ("zi:America/New_York", lambda t: t.astimezone(ZoneInfo("America/New_York"))),
        ("-00:44:30", lambda t: t.astimezone(dt.timezone(-dt.timedelta(minutes=44, seconds=30)))),
    ]


def shards(tier: str, seed: int) -> List[Any]:
    b = META["bounds"][tier]
    out = []
    for bi in range(b["bases"]):
        for s0 in range(0, 60, 6):
            out.append({"tier": tier, "base": bi, "secs": list(range(s0, s0 + 6))})
    return out


def expected(now: dt.datetime, t_utc: dt.datetime):
    """Three-way split of the property; returns ('past',) / ('later',) / ('delay',)."""
    if t_utc <= now:
        return "past"
    boundary = now.replace(second=0, microsecond=0) + dt.timedelta(minutes=1)
    if t_utc > boundary + SEC:
        return "later"
    return "delay"


def judge(now, t_utc, got):
    """Return None if ok, else (key, message)."""
    exp = expected(now, t_utc)
    if exp == "past":
        if got != 0 or isinstance(got, bool) or not isinstance(got, int):
            return ("past-not-due", f"T<=now must be due immediately (0), got {got!r}")
        return None
    if exp == "later":
        if got is not None:
            return ("beyond-horizon-sent", f"T beyond horizon must be left (None), got {got!r}")
        return None
    if got is None:
        return ("within-horizon-left", "T within horizon must get a delay, got None")
    if isinstance(got, bool) or not isinstance(got, int):
        return ("delay-not-int", f"delay must be a whole number of seconds, got {got!r}")
    fire = now + dt.timedelta(seconds=got)
    if fire < t_utc:
        return ("early", f"now+d={fire.isoformat()} is before T")
    if fire >= t_utc + SEC:
        return ("late", f"now+d={fire.isoformat()} is >= T+1s")
    return None


def eval_case(run, ScheduledTask, holder, now, t_utc, spell):
    holder[0] = now
    task = ScheduledTask(task_name="t", labels={}, args=[], kwargs={}, time=spell(t_utc))
    return run.get_task_delay(task)


def _set_process_tz(name: Any) -> None:
    """The operating system's local zone (what naive datetimes mean to astimezone()/mktime)."""
    import os
    import time

    if name is None:
        os.environ.pop("TZ", None)
    else:
        os.environ["TZ"] = name
    time.tzset()


def run_shard(shard: Dict[str, Any]) -> Dict[str, Any]:
    _set_process_tz([None, "Asia/Tokyo", "America/New_York"][(shard["secs"][0] // 6) % 3])
    try:
        return _run_shard(shard)
    finally:
        _set_process_tz(None)


def _run_shard(shard: Dict[str, Any]) -> Dict[str, Any]:
    from mc import clock
    import taskiq.cli.scheduler.run as run
    from taskiq.scheduler.scheduled_task import ScheduledTask

    acc = Acc()
    b = META["bounds"][shard["tier"]]
    base = BASES[shard["base"]]
    holder = [base]
    # the process' local zone must not matter: every other shard runs with naive now() 5:30 ahead of UTC
    clock.install(lambda: holder[0], local_offset=dt.timedelta(hours=5, minutes=30) if (shard["secs"][0] // 6) % 2 else None)
    spellings = _spellings()
    sec_deltas = list(range(-3, 64))
    us_deltas = [-1, 0, 1, 500000]
    try:
        for s in shard["secs"]:
            for mu in b["micro"]:
                now = base + dt.timedelta(seconds=s, microseconds=mu)
                boundary = now.replace(second=0, microsecond=0) + dt.timedelta(minutes=1)
                anchors = [
                    now,
                    boundary,
                    boundary + SEC,
                    now + dt.timedelta(days=1),
                    now - dt.timedelta(days=1),
                    now - dt.timedelta(days=2),
                    now + dt.timedelta(days=2),
                ]
                # family A
                fam_a = [
                    (a + dt.timedelta(seconds=ds, microseconds=du), spellings[0])
                    for a in anchors
                    for ds in sec_deltas
                    for du in us_deltas
                ]
                # family B
                fam_b = [
                    (a + d, sp)
                    for a in anchors[:3]
                    for d in (-SEC, -US, dt.timedelta(0), US, SEC, dt.timedelta(microseconds=500000))
                    for sp in spellings
                ]
                if shard["tier"] == "thorough":
                    fam_a = [(t, sp) for (t, _) in fam_a for sp in spellings[:3]]
                for t_utc, (spname, spell) in itertools.chain(fam_a, fam_b):
                    try:
                        got = eval_case(run, ScheduledTask, holder, now, t_utc, spell)
                    except Exception as exc:  # totality is part of the contract
                        got = f"raised {type(exc).__name__}: {exc}"
                    acc.evaluations += 1
                    bad = judge(now, t_utc, got)
                    cls = expected(now, t_utc)
                    acc.outcome((cls, got if cls == "delay" else None))
                    acc.count(cls)
                    if bad:
                        acc.violation(
                            bad[0],
                            f"now={now.isoformat()} T={t_utc.isoformat()} spelling={spname}: {bad[1]}",
                            {"now": now.isoformat(), "T": t_utc.isoformat(), "spelling": spname, "got": got},
                        )
                    elif acc.evaluations % 40009 == 1:
                        acc.sample({"now": now.isoformat(), "T": t_utc.isoformat(), "spelling": spname, "delay": got})
    finally:
        clock.uninstall()
    return acc.as_dict()


META["required_counters"] = ["past", "later", "delay"]


def replay(obj: Dict[str, Any]) -> int:
    from mc import clock
    import taskiq.cli.scheduler.run as run
    from taskiq.scheduler.scheduled_task import ScheduledTask

    now = dt.datetime.fromisoformat(obj["now"])
    t = dt.datetime.fromisoformat(obj["T"])
    spell = dict(_spellings())[obj["spelling"]]
    holder = [now]
    clock.install(lambda: holder[0])
    try:
        got = eval_case(run, ScheduledTask, holder, now, t, spell)
    finally:
        clock.uninstall()
    bad = judge(now, t, got)
    print(f"now={now.isoformat()} T={t.isoformat()} spelling={obj['spelling']} -> delay={got!r}; verdict={bad}")
    return 1 if bad else 0
