"""C02 - acknowledgement exactly once and never before the configured point (E1)."""
from __future__ import annotations

import itertools
from typing import Any, Dict, List

from mc.common import Acc
from mc.recv_driver import replay as _replay
from mc.recv_driver import mark_stateless, run_scenarios
from mc.recv_world import RecvWorld

OUTCOMES: Dict[str, Dict[str, Any]] = {
    "return": {},
    "raise": {"outcome": "raise"},
    "timeout": {"outcome": "never", "timeout": 0.2},
    "timeout-race": {"timeout": 0.2},  # gated body racing the timeout timer
    "noresult": {"outcome": "noresult"},
    "savefail": {"save_fails": True},
    "sync-return": {"flavour": "sync"},
    "sync-raise": {"flavour": "sync", "outcome": "raise"},
    "base-exc": {"outcome": "raise", "exc": "KeyboardInterrupt"},
}
ACK_TYPES = ["when_received", "when_executed", "when_saved", None]

META = {
    "kind": "graph",
    "engine": "E1 explicit-state exploration of Receiver.listen()/callback() on a hand-stepped event loop",
    "rule": (
        "acknowledge type x ack callback flavour (sync, coroutine with gated completion, plain function returning a Task) x outcome (return, raise, "
        "BaseException, timeout, timeout racing completion, no-result, backend failure, sync return/raise) for "
        "one message and for all pairs of messages processed concurrently (A=2) - also two deliveries of the same task id overlapping, each with its own ack callback - with save and ack completions "
        "as separate events; with and without a middleware carrying post_execute/post_save hooks. All orderings "
        "(level 1: two events in one loop iteration). The oracle runs at every ACK event, i.e. on every prefix of "
        "every explored trace (a crash after any observable event leaves exactly that prefix): #ack calls <= 1; "
        "when_received: ack precedes the task function start; when_executed: the function has ended (returned, "
        "raised, cancelled by timeout) before the ack; when_saved/default: the save attempt has ended (stored or "
        "failed) or, for a no-result outcome, the function and all post_execute hooks have ended. When processing "
        "of an ackable message finishes, #ack calls == 1. distinct_nontrivial = distinct terminal per-message logs."
        " Fault-overlap family (mc/fault_overlap.py): message X suffers one fault out of {pre_execute/post_execute/post_save/on_error hook, sync or async ack, result backend} x {RuntimeError, CancelledError, TimeoutError}, backend failing once, body raise/CancelledError/timeout/no-result, malformed/unknown message, broker stream error, while the healthy message Y has suspension points before, inside and after its function and the stop request may arrive at any point; for all three acknowledge types; Y, and X for the outcomes the property quantifies over, is acknowledged exactly once and never early; an X outside them (raising hook, CancelledError from the backend, junk) may end un-acknowledged but never with an early or second ack; also with wait_tasks_timeout elapsing while Y (async / sync) is inside its function."
        " Repeated faults (mc/fault_overlap.py::repeats): the same fault k times in a row (k in 3..6; thorough up to 10) on one worker, then healthy messages - a counter, pool, budget or throttle inside the worker must not change what happens at the k-th occurrence. For all three acknowledge types."
        " The acknowledge type given as the enum member, as a plain string and as a str subclass."
    ),
    "assumptions": [
        "asyncio semantics as implemented by BaseEventLoop (only clock/selector replaced)",
        "the ack call instant is the instant the broker-supplied callable is invoked",
    ],
    "required_counters": ["wiring_cases", "scenarios", "terminal_states", "acks_checked"],
    "bounds": {
        "quick": {"n": "1 (all), 2 (all pairs over 5 outcomes)", "L1": "n=1"},
        "thorough": {"n": "1, 2 (all pairs over 9 outcomes)", "L1": "n=1 and n=2 over 4 outcomes", "L2": "n=1"},
    },
}


class C02World(RecvWorld):
    acks_checked = 0

    def metrics(self) -> Dict[str, int]:
        m = super().metrics()
        m["acks_checked"] = self.acks_checked
        return m

    def on_event(self, ev: Any) -> None:
        super().on_event(ev)
        kind = ev[0]
        if kind == "ACK_B":
            i = ev[1]
            log = self.per[i][:-1]  # events of this message before the ack call
            kinds = [e[0] for e in log]
            self.acks_checked += 1
            if "ACK_B" in kinds:
                self.flag("C02:double-ack", f"message {i} acknowledged twice: {self.per[i]}")
            at = self.sc.get("ack_type") or "when_saved"
            if at == "when_received":
                if "START" in kinds or "SUBMIT" in kinds:
                    self.flag("C02:late-ack-when-received", f"message {i}: ack after the task function started: {self.per[i]}")
            elif at == "when_executed":
                if "END" not in kinds and not self._ended_without_body(i, kinds):
                    self.flag("C02:early-ack-when-executed", f"message {i} acknowledged before the task function finished: {self.per[i]}")
            else:
                ok = "SAVE_E" in kinds or "SAVE_F" in kinds
                if not ok and self.msgs[i]["outcome"] == "noresult" and "END" in kinds:
                    nposts = sum(1 for mw in self.sc.get("mws", []) if "post_execute" in mw.get("hooks", {}))
                    ok = kinds.count("POST") == nposts
                if not ok:
                    self.flag("C02:early-ack-when-saved", f"message {i} acknowledged before the result was stored: {self.per[i]}")
        elif kind == "CB_E":
            i = ev[1]
            m = self.msgs[i]
            if m["ack"] is not None and m["kind"] == "valid":
                kinds = [e[0] for e in self.per[i]]
                if kinds.count("ACK_B") != 1 and not self.muted and self._finished_normally(i, kinds) and not (self.relaxed(i) and kinds.count("ACK_B") == 0):
                    self.flag("C02:missing-ack", f"processing of message {i} finished with {kinds.count('ACK_B')} acks: {self.per[i]}")

    def _ended_without_body(self, i: int, kinds: List[str]) -> bool:
        # a sync task whose executor future was cancelled by the timeout never runs its body
        return self.msgs[i]["flavour"] == "sync" and "SUBMIT" in kinds and self.msgs[i]["timeout"] is not None

    def _finished_normally(self, i: int, kinds: List[str]) -> bool:
        # the callback coroutine ran to its end (it was not torn down by the harness)
        return not self.closed


def _sc(at: Any, msgs: List[Dict[str, Any]], level: int, mws: bool, a: int = 2) -> Dict[str, Any]:
    sc = {"A": a, "P": 0, "N": None, "stream": "finite", "stop": False, "level": level, "ack_type": at, "msgs": msgs}
    if mws:
        sc["mws"] = [{"hooks": {"post_execute": "async", "post_save": "sync", "on_error": "sync"}}]
    return sc


def _msg(name: str, ack: str, gated: bool) -> Dict[str, Any]:
    m = dict(OUTCOMES[name])
    m["ack"] = ack
    m["gates"] = (["save"] if gated else []) + (["ack"] if ack in ("async", "future") else [])
    return m


def fault_family(tier: str) -> List[Dict[str, Any]]:
    """One fault in message X while message Y is in flight, stop request at any point (mc/fault_overlap.py).
    Y - and X for the outcomes the property quantifies over - must be acknowledged exactly once and not
    early; an X whose hook raises, whose backend raises CancelledError or that is junk may end without an
    ack (outside the quantified outcomes) but never with an early or second one."""
    from mc import fault_overlap as fo

    out = []
    ats = ACK_TYPES[:3]
    for sc in fo.family(tier, ack_types=ats, a=3):
        k, d = sc["fault"]
        sc["relax_x"] = k in ("hook", "junk") or (k == "save" and d == "cancel")
        out.append(sc)
    # the drain gives up after wait_tasks_timeout while Y (async / sync on the executor) is inside its function
    for at in ats:
        for y in (None, {"flavour": "sync"}):
            for f in (("body", "raise"), ("save", "raise")):
                out.append(fo.scenario(f, ack_type=at, y=y, a=3, w=0.3))
    # the same fault 3..6 times in a row on one worker, then a healthy message
    for at in ats:
        for sc in fo.repeats(tier, ks=(3, 4, 5, 6) if tier == "quick" else (3, 4, 5, 6, 8, 9, 10), ack_type=at):
            k, d = sc["fault"]
            sc["relax_x"] = k in ("hook", "junk") or (k == "save" and d == "cancel")
            out.append(sc)
    if tier == "thorough":
        for sc in fo.family(tier, ack_types=ats, a=2, orders=(False,), ys=({"flavour": "sync"},)):
            k, d = sc["fault"]
            sc["relax_x"] = k in ("hook", "junk") or (k == "save" and d == "cancel")
            out.append(sc)
    return out


def scenarios(tier: str) -> List[Dict[str, Any]]:
    out: List[Dict[str, Any]] = []
    names = list(OUTCOMES)
    for at, nm, ack, mws in itertools.product(ACK_TYPES, names, ("sync", "async", "future"), (False, True)):
        out.append(_sc(at, [_msg(nm, ack, True)], 0, mws))
        out.append(_sc(at, [_msg(nm, ack, True)], 1, mws))
        if tier == "thorough":
            out.append(_sc(at, [_msg(nm, ack, True)], 2, mws))
    pair_names = names[:5] if tier == "quick" else names
    for at in ACK_TYPES[:3]:
        for n1, n2 in itertools.product(pair_names, repeat=2):
            for ack in ("sync", "async"):
                out.append(_sc(at, [_msg(n1, ack, True), _msg(n2, ack, True)], 0, False))
    # a worker that recycles after N messages: the last accepted message is acknowledged once like any other
    for at in ACK_TYPES[:3]:
        for n_ in (1, 2):
            for nm in ("return", "raise"):
                sc = _sc(at, [_msg(nm, "sync", False), _msg("return", "async", True), _msg("return", "sync", False)], 0, False, a=2)
                sc.update({"stream": "infinite", "stop": False, "N": n_, "P": 1})
                out.append(sc)
    # at-least-once delivery: the same message (same task id) delivered again while its first execution is
    # still in flight (visibility timeout, requeue) - each delivery has its own ack callback and its own point
    for at in ACK_TYPES[:3]:
        for n1, n2 in itertools.product(("return", "raise", "savefail", "noresult"), repeat=2):
            for ack in ("sync", "async"):
                m1, m2 = _msg(n1, ack, True), _msg(n2, ack, True)
                m1["body"] = m2["body"] = "gated"
                m2["same_id_as"] = 0
                out.append(_sc(at, [m1, m2], 0, False))
    # the acknowledge type given as a plain string / str subclass (AcknowledgeType is a str enum)
    for at in ACK_TYPES[:3]:
        for form in ("str", "strsub"):
            for nm in (names if tier == "thorough" else names[:4]):
                sc = _sc(at, [_msg(nm, "async", True)], 0, False)
                sc["ack_type_form"] = form
                out.append(sc)
    out += fault_family(tier)
    if tier == "thorough":
        for at in ACK_TYPES[:3]:
            for n1, n2 in itertools.product(names[:4], repeat=2):
                out.append(_sc(at, [_msg(n1, "async", True), _msg(n2, "async", True)], 1, True))
        # with a concurrency limit of 1 and prefetch, infinite stream + stop
        for at in ACK_TYPES[:3]:
            for n1, n2 in itertools.product(names[:5], repeat=2):
                sc = _sc(at, [_msg(n1, "async", True), _msg(n2, "sync", False)], 0, False, a=1)
                sc.update({"stream": "infinite", "stop": True, "P": 1})
                out.append(sc)
    return out


def shards(tier: str, seed: int) -> List[Any]:
    return _shards(tier, seed) + [[{"wiring": "C02"}]]


def _shards(tier: str, seed: int) -> List[Any]:
    scs = scenarios(tier)
    if tier == "thorough":
        mark_stateless(scs, 6, 12)
    scs.sort(key=lambda s: (-s["level"], -len(s["msgs"])))
    big = [s for s in scs if s["level"] > 0 and len(s["msgs"]) > 1]
    small = [s for s in scs if not (s["level"] > 0 and len(s["msgs"]) > 1)]
    return [[s] for s in big] + [small[i : i + 8] for i in range(0, len(small), 8)]


def _per(sc: Dict[str, Any], res: Any, acc: Acc) -> None:
    if res.maxima.get("acks_checked", 0):
        acc.count("acks_checked")


def run_shard(shard: List[Dict[str, Any]]) -> Dict[str, Any]:
    if shard and shard[0].get("wiring"):
        from mc.cli_wiring import check_worker_wiring

        acc = Acc()
        check_worker_wiring("C02", acc)
        return acc.as_dict()
    return run_scenarios("C02", shard, C02World, per_scenario=_per).as_dict()


def replay(obj: Dict[str, Any]) -> int:
    return _replay(obj, C02World)
