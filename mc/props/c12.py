"""C12 - dependencies are torn down exactly once, before the result becomes visible (E1)."""
from __future__ import annotations

import itertools
from typing import Any, Dict, List, Tuple

from mc.common import Acc
from mc.dep_world import TEARDOWN_STYLES, DepWorld
from mc.recv_driver import replay as _replay
from mc.recv_driver import mark_stateless, run_scenarios

STYLES = ["gen", "agen", "cm", "acm", "plain"]

# shapes: (roots, {node: children})
SHAPES: Dict[str, Tuple[List[str], Dict[str, List[str]]]] = {
    "1": (["a"], {"a": []}),
    "2flat": (["a", "b"], {"a": [], "b": []}),
    "3flat": (["a", "b", "c"], {"a": [], "b": [], "c": []}),
    "chain2": (["a"], {"a": ["b"], "b": []}),
    "chain3": (["a"], {"a": ["b"], "b": ["c"], "c": []}),
    "fan": (["a"], {"a": ["b", "c"], "b": [], "c": []}),
    "diamond": (["a", "b"], {"a": ["c"], "b": ["c"], "c": []}),
    "mixed1": (["a", "c"], {"a": ["b"], "b": [], "c": []}),
    "mixed2": (["a", "b"], {"a": [], "b": ["c"], "c": []}),
}
OUTCOMES = ["return", "raise", "timeout", "noresult", "fail"]

META = {
    "kind": "graph",
    "engine": "E1 explicit-state exploration of Receiver.listen()/callback() with generated dependency graphs",
    "rule": (
        "dependency graphs: 9 shapes (flat 1-3, chains to depth 3, fan, diamond with a shared node, mixed) x every "
        "assignment of the teardown styles {generator, async generator, @contextmanager, @asynccontextmanager, plain} to "
        "their nodes (cached), a second family with one use_cache=False node; outcome in {success, task raises, timeout, "
        "no-result, resolution failure at node j for every j}; propagate in {True, False}; ack type in {when_executed, "
        "when_saved}; two such messages concurrently with async dependencies gated (all orderings, level 0 and 1), also as two overlapping deliveries of one task id. Oracle "
        "at the end of each message's processing: every opened teardown-style dependency has exactly one CLOSE; CLOSE "
        "order is the reverse of OPEN order; all CLOSEs come after the end of the task function (or the failing open) and "
        "before SAVE and before ACK; the exception seen at teardown is the task's exception iff propagation is on and the "
        "outcome failed. distinct_nontrivial = distinct terminal per-message logs."
        " Shared exception object: two executions fail with the very same exception instance (two waiters of one failed future) and finish functions and teardowns in every order."
        " Three executions in flight at once finishing in every order."
        " Task exceptions deriving from BaseException but not Exception (custom BaseException, CancelledError, SystemExit), both propagate settings."
    ),
    "assumptions": [
        "dependency functions are generated real functions recording open/close; taskiq_dependencies 1.5.7 is the pinned resolver (outside /repo)",
    ],
    "required_counters": ["wiring_cases", "scenarios", "teardowns_checked"],
    "bounds": {
        "quick": {"shapes": 9, "styles": "all assignments for <=2 nodes, 3-node shapes over {gen, agen, acm, plain}", "concurrent": "L0"},
        "thorough": {"shapes": 9, "styles": "all assignments", "concurrent": "L0 + L1"},
    },
}


class C12World(DepWorld):
    checked = 0

    def metrics(self) -> Dict[str, int]:
        m = super().metrics()
        m["checked"] = self.checked
        return m

    def _in_uncached_subcontext(self, name: str) -> bool:
        """True if `name` is, or is below, a use_cache=False node (opened in a sub-context)."""
        nodes = self.sc["deps"]["nodes"]
        unc = [n for n, v in nodes.items() if not v.get("cache", True)]
        seen = set()
        stack = list(unc)
        while stack:
            n = stack.pop()
            if n in seen:
                continue
            seen.add(n)
            stack.extend(nodes[n].get("children", []))
        return name in seen

    def on_event(self, ev: Any) -> None:
        super().on_event(ev)
        kind = ev[0]
        if kind in ("SAVE_B", "ACK_B") and not self.closed:
            i = ev[1]
            if kind == "ACK_B" and (self.sc.get("ack_type") or "when_saved") == "when_received":
                return
            opened = [e[1] for e in self.per[i] if e[0] == "OPEN" and self._tears(e[1])]
            closed = [e[1] for e in self.per[i] if e[0] == "CLOSE"]
            missing = [d for d in set(opened) if closed.count(d) < opened.count(d)]
            if missing:
                self.flag(
                    "C12:result-visible-before-teardown",
                    f"message {i}: {kind} while dependencies {missing} are still open: {self.per[i]}",
                )
        if kind == "CLOSE" and not self.closed:
            i = ev[1]
            kinds = [e[0] for e in self.per[i]]
            started = "START" in kinds
            if started and "END" not in kinds:
                self.flag("C12:teardown-before-task-end", f"message {i}: dependency {ev[2]} closed while the task function is running: {self.per[i]}")
        if kind != "CB_E" or self.closed:
            return
        i = ev[1]
        if self.msgs[i]["kind"] != "valid" or not self.sc.get("deps"):
            return
        self.checked += 1
        log = self.per[i]
        opened = [e[1] for e in log if e[0] == "OPEN" and self._tears(e[1])]
        closes = [e for e in log if e[0] == "CLOSE"]
        closed = [e[1] for e in closes]
        for d in sorted(set(opened) | set(closed)):
            if closed.count(d) != opened.count(d):
                self.flag(
                    "C12:close-count",
                    f"message {i}: dependency {d} opened {opened.count(d)} times, closed {closed.count(d)} times: {log}",
                )
        if sorted(closed) == sorted(opened) and closed != list(reversed(opened)):
            exp = list(reversed(opened))
            bad = [(x, y) for x, y in zip(closed, exp) if x != y]
            involved = {x for pair in bad for x in pair}
            if any(self._in_uncached_subcontext(d) for d in involved):
                key = "C12:D7-uncached-subcontext-closed-before-parents"
            else:
                key = "C12:close-order"
            self.flag(key, f"message {i}: opened {opened}, closed {closed} (expected {exp})")
        # exception seen at teardown
        failed = self._failed(i)
        want = failed if self.sc.get("propagate", True) else None
        for e in closes:
            seen = e[2]
            if want is None and seen is not None:
                self.flag("C12:exception-propagated-although-disabled", f"message {i}: dependency {e[1]} saw {seen} with propagate={self.sc.get('propagate', True)}, outcome failed={failed}")
            elif want is not None and seen != want:
                self.flag("C12:exception-not-propagated", f"message {i}: dependency {e[1]} saw {seen!r} at teardown, expected {want}")

    def _tears(self, name: str) -> bool:
        return self.sc["deps"]["nodes"][name]["style"] in TEARDOWN_STYLES

    def _failed(self, i: int) -> Any:
        m = self.msgs[i]
        if any(e[0] == "OPENFAIL" for e in self.per[i]):
            return "RuntimeError"
        ends = [e for e in self.per[i] if e[0] == "END"]
        if m["timeout"] is not None and (not ends or ends[-1][1].startswith("cancelled")):
            return "TimeoutError"
        if m["outcome"] == "raise":
            return m["exc"]
        if m["outcome"] == "noresult":
            return "NoResultError"
        return None


def _deps(shape: str, styles: Tuple[str, ...], uncached: Any = None, gated: bool = False, fail_node: Any = None, fail_for: Tuple[int, ...] = (0,)) -> Dict[str, Any]:
    roots, adj = SHAPES[shape]
    names = sorted(adj)
    nodes = {}
    for nm, st in zip(names, styles):
        nodes[nm] = {"style": st, "children": adj[nm], "cache": nm != uncached,
                     "gate": gated and st in ("agen", "acm", "aplain"), "gate_close": gated and st in ("agen", "acm"),
                     "fail": list(fail_for) if nm == fail_node else []}
    return {"roots": roots, "nodes": nodes}


def _msg(outcome: str, ack: Any) -> Dict[str, Any]:
    m: Dict[str, Any] = {"task": "dep", "body": "immediate", "ack": ack, "gates": []}
    if outcome == "raise":
        m["outcome"] = "raise"
    elif outcome == "timeout":
        m.update(outcome="never", timeout=0.2, body="gated")
    elif outcome == "noresult":
        m["outcome"] = "noresult"
    return m


def scenarios(tier: str) -> List[Dict[str, Any]]:
    out: List[Dict[str, Any]] = []
    for shape, (roots, adj) in SHAPES.items():
        names = sorted(adj)
        k = len(names)
        styles_alpha = STYLES if (k <= 2 or tier == "thorough") else ["gen", "agen", "acm", "plain"]
        for styles in itertools.product(styles_alpha, repeat=k):
            if all(s == "plain" for s in styles):
                continue
            for outcome in OUTCOMES:
                fail_nodes = names if outcome == "fail" else [None]
                for fn in fail_nodes:
                    combos = list(itertools.product((True, False), ("when_executed", "when_saved")))
                    if tier == "quick" and k == 3:
                        # 3-node graphs: vary propagate/ack with the outcome instead of the full product
                        combos = [combos[(OUTCOMES.index(outcome) + names.index(fn or names[0])) % 4], combos[(OUTCOMES.index(outcome) + 2) % 4]]
                    for prop, at in combos:
                        out.append({"A": 2, "P": 0, "N": None, "stream": "finite", "stop": False, "level": 0,
                                    "propagate": prop, "ack_type": at,
                                    "deps": _deps(shape, styles, fail_node=fn),
                                    "msgs": [_msg("return" if outcome == "fail" else outcome, "sync")]})
        # one use_cache=False node
        for unc in names:
            for styles in itertools.product(["gen", "agen"], repeat=k):
                for outcome in ("return", "raise"):
                    out.append({"A": 2, "P": 0, "N": None, "stream": "finite", "stop": False, "level": 0,
                                "propagate": True, "ack_type": "when_saved",
                                "deps": _deps(shape, styles, uncached=unc),
                                "msgs": [_msg(outcome, "sync")]})
    # concurrency: two messages, async dependencies gated
    conc_shapes = ["chain2", "2flat", "diamond"] if tier == "quick" else ["chain2", "2flat", "diamond", "fan", "chain3"]
    for shape in conc_shapes:
        k = len(SHAPES[shape][1])
        for styles in ([("agen",) * k, ("acm", "gen", "agen")[:k]] if tier == "quick" else [("agen",) * k, ("acm", "gen", "agen")[:k], ("gen", "agen", "cm")[:k]]):
            for o1, o2 in (("return", "raise"), ("raise", "fail"), ("timeout", "return")):
                for lvl in ((0,) if tier == "quick" else (0, 1)):
                    names = sorted(SHAPES[shape][1])
                    deps = _deps(shape, styles, gated=True, fail_node=names[-1] if "fail" in (o1, o2) else None,
                                 fail_for=(1,) if o2 == "fail" else (0,))
                    if lvl == 1:
                        for nd in deps["nodes"].values():
                            nd["gate_close"] = False
                    out.append({"A": 2, "P": 1, "N": None, "stream": "finite", "stop": False, "level": lvl,
                                "propagate": True, "ack_type": "when_saved", "deps": deps,
                                "msgs": [_msg("return" if o1 == "fail" else o1, "sync"), _msg("return" if o2 == "fail" else o2, "sync")]})
    # at-least-once delivery: two executions of the same task id in flight at once (a redelivery overlapping the
    # first execution) - each has its own dependency instances, torn down once, before its own result is stored
    for shape in (("chain2", "2flat") if tier == "quick" else ("chain2", "2flat", "diamond", "chain3")):
        k = len(SHAPES[shape][1])
        for styles in (("agen",) * k, ("acm", "gen", "agen")[:k]):
            for o1, o2 in (("return", "return"), ("return", "raise"), ("raise", "timeout")):
                deps = _deps(shape, styles, gated=True)
                m1, m2 = _msg(o1, "sync"), _msg(o2, "sync")
                m2["same_id_as"] = 0
                out.append({"A": 2, "P": 1, "N": None, "stream": "finite", "stop": False, "level": 0,
                            "propagate": True, "ack_type": "when_saved", "deps": deps, "msgs": [m1, m2]})
    # task exceptions that derive from BaseException but not from Exception (custom BaseException, CancelledError
    # of an awaited inner future, SystemExit of a sync task): thrown into the dependencies like any other
    for shape in ("chain2", "2flat"):
        k = len(SHAPES[shape][1])
        for styles in (("gen", "agen")[:k], ("cm", "acm")[:k]):
            for exc in ("CustomBase", "CancelledError", "SystemExit"):
                for prop in (True, False):
                    m = dict(_msg("raise", "sync"), exc=exc)
                    if exc == "SystemExit":
                        m["flavour"] = "sync"
                    out.append({"A": 2, "P": 0, "N": None, "stream": "finite", "stop": False, "level": 0,
                                "propagate": prop, "ack_type": "when_saved", "deps": _deps(shape, styles), "msgs": [m]})
    # three executions in flight at once, finishing in every order (the middle one first, ...)
    for shape in (("chain2",) if tier == "quick" else ("chain2", "2flat", "diamond")):
        k = len(SHAPES[shape][1])
        for styles in (("agen",) * k, ("cm", "agen", "gen")[:k]):
            for outs in (("return", "return", "return"), ("raise", "return", "raise")):
                deps = _deps(shape, styles, gated=False)
                msgs = [dict(_msg(o, "sync"), body="gated") for o in outs]
                out.append({"A": 3, "P": 1, "N": None, "stream": "finite", "stop": False, "level": 0,
                            "propagate": True, "ack_type": "when_saved", "deps": deps, "msgs": msgs})
    # two executions failing with the very same exception object (two waiters of one failed future), finishing
    # their functions and their teardowns in every order
    for shape in (("chain2", "2flat") if tier == "quick" else ("chain2", "2flat", "chain3")):
        k = len(SHAPES[shape][1])
        for styles in (("agen",) * k, ("acm", "gen", "agen")[:k]):
            for prop in (True, False):
                deps = _deps(shape, styles, gated=True)
                for nd in deps["nodes"].values():
                    nd["gate"] = False  # suspension points only in the function and in the finalisers
                msgs = [dict(_msg("raise", "sync"), body="gated", exc_shared=True) for _ in range(2)]
                out.append({"A": 2, "P": 1, "N": None, "stream": "finite", "stop": False, "level": 0,
                            "propagate": prop, "ack_type": "when_saved", "deps": deps, "msgs": msgs})
    # shutdown: stop requested and wait_tasks_timeout elapsing while an execution with opened dependencies
    # is still running; whatever the worker does with that execution, an opened dependency that has not been
    # finalised when listen() returns must not have been abandoned by the receiver (it may still be running)
    for shape in ("chain2", "2flat"):
        k = len(SHAPES[shape][1])
        for styles in (("gen",) * k, ("agen", "cm")[:k], ("acm", "gen")[:k]):
            out.append({"A": 2, "P": 0, "N": None, "W": 0.3, "stream": "infinite", "stop": True, "level": 0,
                        "propagate": True, "ack_type": "when_saved", "deps": _deps(shape, styles),
                        "msgs": [dict(_msg("return", "sync"), body="gated", outcome="never")]})
    return out


def shards(tier: str, seed: int) -> List[Any]:
    return _shards(tier, seed) + [[{"wiring": "C12"}]]


def _shards(tier: str, seed: int) -> List[Any]:
    scs = scenarios(tier)
    if tier == "thorough":
        mark_stateless(scs, 6, 12)
    big = [s for s in scs if len(s["msgs"]) > 1]
    small = [s for s in scs if len(s["msgs"]) == 1]
    return [[s] for s in big] + [small[i : i + 80] for i in range(0, len(small), 80)]


def _per(sc: Dict[str, Any], res: Any, acc: Acc) -> None:
    if res.maxima.get("checked", 0):
        acc.count("teardowns_checked")


def run_shard(shard: List[Dict[str, Any]]) -> Dict[str, Any]:
    if shard and shard[0].get("wiring"):
        from mc.cli_wiring import check_worker_wiring

        acc = Acc()
        check_worker_wiring("C12", acc)
        return acc.as_dict()
    return run_scenarios("C12", shard, C12World, per_scenario=_per).as_dict()


def replay(obj: Dict[str, Any]) -> int:
    return _replay(obj, C12World)
