"""C08 - arguments reach the task function unchanged and bound to the right parameters (E3)."""
from __future__ import annotations

import dataclasses
import inspect
import itertools
from typing import Any, Dict, List, Optional, Tuple

from mc.common import Acc, setup_repo_path

setup_repo_path()
import pydantic  # noqa: E402
from taskiq import Context, TaskiqDepends  # noqa: E402


class Model(pydantic.BaseModel):
    x: int
    y: str = "dflt"


@dataclasses.dataclass
class DC:
    p: int
    q: str = "dq"


class PlainCursor:
    """A plain class: pydantic cannot build a schema for it, so conversion fails and the value arrives as sent."""

    def __init__(self, pos: int = 0) -> None:
        self.pos = pos


class ModelAllDefaults(pydantic.BaseModel):
    n: int = 3
    t: str = "t"


import typing  # noqa: E402

TupleOfInt = typing.Tuple[int, ...]


def _make_event(version: int) -> Any:
    """Two distinct model classes with the same module, name and qualname (factory-made)."""
    if version == 1:
        class Event(pydantic.BaseModel):
            id: int
    else:
        class Event(pydantic.BaseModel):  # type: ignore[no-redef]
            id: int
            tags: typing.List[str] = []
            retries: int = 3
    return Event


EventV1 = _make_event(1)
EventV2 = _make_event(2)


def the_dep() -> str:
    return "DEP-VALUE"


def the_int_dep() -> int:
    return 41


META = {
    "kind": "inputs",
    "engine": "E3 bounded-exhaustive enumeration of generated task signatures x call shapes through kiq -> formatter bytes -> Receiver.callback, against inspect.Signature.bind + TypeAdapter",
    "rule": (
        "signatures: every valid def with <= 4 positional-or-keyword parameters over kinds {un-annotated, Any, int, str, float, "
        "Tuple[int, ...], pydantic model, model whose fields all have defaults, dataclass} followed by defaulted kinds {annotated int default, TaskiqDepends dependency, Context} and "
        "an optional keyword-only tail {annotated, un-annotated} (functions generated with exec); for each signature every "
        "split of the caller's arguments into positional prefix / keywords that Python accepts x value schemes {convertible "
        "strings, non-convertible strings, native values, model/dataclass instances, None, falsy non-None values (0, '', [], {}), the same interned object repeated after a refused and a converted one, "
        "alternating, one parameter omitted "
        "where it has a default} x validate_params in {True, False} x serializer in {JSON, pickle}. The generated function "
        "records what it received. Reference: inspect.signature(f).bind_partial(*args, **kwargs) gives the parameter each value "
        "belongs to; expected value = TypeAdapter(annotation).validate_python(v) when that succeeds and parsing is on, else v "
        "in wire (dict/list) form. Round trip: for every generated TaskiqMessage and every importable bundled formatter "
        "(ProxyFormatter x {JSON, pickle}, JSONFormatter) loads(dumps(m).message) == m. Confusable scalars: every ordered pair "
        "of {0, False, 0.0, -0.0, 1, True, 1.0, 5, 5.0, '1', '1.0', 'True'} sent one after the other (and together in one message) to "
        "a parameter annotated Any / un-annotated / float / int / str / bool / Union[int, float] / datetime / Decimal / object, in one "
        "process: each arrives as TypeAdapter says, type and sign of zero included, whatever was sent before. distinct_nontrivial = distinct "
        "(signature kinds, split, scheme, validate) classes."
        " Name clash: the same task name registered on a shared broker and on the worker's broker with different signatures, either registration order; the local function runs with arguments bound and converted by its own signature."
        " Every signature with at most two parameters (thorough: all) also behind a functools.wraps pass-through decorator."
        " Scheme 'nonemix': None for every other parameter, convertible strings for the rest."
    ),
    "assumptions": [
        "ORJSON / MsgPack / CBOR serializers cannot be imported in this image and are not covered",
        "values are drawn from a small JSON-representable alphabet; conversion itself is delegated to pydantic in both code and reference, the oracle is about binding",
    ],
    "required_counters": ["sends", "converted_params", "unannotated_before_annotated", "roundtrips", "confusable_sends", "name_clash_sends", "wrapped_signatures"],
    "bounds": {"quick": {"max_params": 3, "kw_tail": "<=1 for <=2 params"}, "thorough": {"max_params": 4, "kw_tail": "<=2"}},
}

TWIN = "VW"  # V / W: two distinct classes with identical repr (only used in the dedicated twin signatures)
FRONT = "uAisMDfTNK"  # kinds without default (f float, T Tuple[int, ...], N model whose fields all have defaults)
BACK = "dPCQ"  # kinds with default (annotated default, str dependency, Context, int dependency)
ANNOT = {"u": None, "A": "Any", "i": "int", "s": "str", "M": "Model", "D": "DC", "d": "int", "f": "float", "T": "TupleOfInt", "N": "ModelAllDefaults", "V": "EventV1", "W": "EventV2", "K": "PlainCursor"}


def signatures(tier: str) -> List[Tuple[str, str]]:
    """(positional kinds, keyword-only kinds) with kw-only kinds in {'I' annotated int, 'U' un-annotated}."""
    maxn = 3 if tier == "quick" else 4
    out = []
    for p in range(0, maxn + 1):
        for q in range(0, maxn + 1 - p):
            for front in itertools.product(FRONT, repeat=p):
                for back in itertools.product(BACK, repeat=q):
                    pos = "".join(front) + "".join(back)
                    tails = [""]
                    if tier == "thorough":
                        tails += ["I", "U", "IU", "UI"] if len(pos) <= 3 else ["I", "U"]
                    elif len(pos) <= 2:
                        tails += ["I", "U"]
                    for t in tails:
                        if pos or t:
                            out.append((pos, t))
    # same-named distinct types (state shared between calls through any annotation-keyed cache)
    out += [("V", ""), ("W", ""), ("VW", ""), ("WV", ""), ("iW", ""), ("Vu", ""), ("W", "I")]
    return out


def build_function(pos: str, tail: str, rec: List[Any]) -> Any:
    params = []
    names = []
    for j, k in enumerate(pos):
        nm = f"p{j}"
        names.append(nm)
        if k == "u":
            params.append(nm)
        elif k in "AisMDfTNVWK":
            params.append(f"{nm}: {ANNOT[k]}")
        elif k == "d":
            params.append(f"{nm}: int = 5")
        elif k == "P":
            params.append(f"{nm}: str = TaskiqDepends(the_dep)")
        elif k == "Q":
            params.append(f"{nm}: int = TaskiqDepends(the_int_dep)")
        elif k == "C":
            params.append(f"{nm}: Context = TaskiqDepends()")
    if tail:
        params.append("*")
        for j, k in enumerate(tail):
            nm = f"k{j}"
            names.append(nm)
            params.append(f"{nm}: int" if k == "I" else nm)
    src = f"async def gen_task({', '.join(params)}):\n    _rec.append(dict({', '.join(f'{n}={n}' for n in names)}))\n    return None\n"
    ns = {"_rec": rec, "Any": Any, "Model": Model, "DC": DC, "TupleOfInt": TupleOfInt, "ModelAllDefaults": ModelAllDefaults, "EventV1": EventV1, "EventV2": EventV2, "PlainCursor": PlainCursor, "TaskiqDepends": TaskiqDepends, "the_dep": the_dep, "the_int_dep": the_int_dep,
          "Context": Context, "__name__": "mc.props.c08"}
    exec(src, ns)  # noqa: S102
    fn = ns["gen_task"]
    fn.__module__ = "mc.props.c08"
    return fn, names


def value_for(kind: str, scheme: str, j: int) -> Any:
    """Value the caller sends for parameter j of the given kind under a scheme."""
    if scheme == "none":
        return None
    if scheme == "nonemix":
        # None for every other parameter, convertible strings for the rest (a None must not end the conversion
        # of the parameters after it)
        return None if j % 2 == 0 else value_for(kind, "conv", j)
    if scheme in ("rep", "rep2"):
        # the same (interned) objects repeated along the parameter list: a value that cannot be converted
        # first, then one that can, then that very object again (rep2: the refused one again at the end)
        if kind in "idIf":
            seq = ["x", "5", "5", "x", "5"] if scheme == "rep" else ["7", "x", "x", "7", "x"]
            return seq[j % 5]
        if kind == "s":
            return [1, "a", "a", 1][j % 4]
        scheme = "alt"
    if scheme == "falsy":
        # falsy but not None: conversion must still happen (0 -> 0.0, [] -> (), {} -> model with defaults)
        return {"i": 0, "d": 0, "I": 0, "f": 0, "s": "", "M": {}, "D": {}, "N": {}, "T": []}.get(kind, [])
    if kind == "K":
        return {"pos": j} if scheme != "nonconv" else f"cursor{j}"
    if scheme == "inst" and kind in "uA":
        # a model instance with fields left at their defaults, sent to a parameter that is not annotated with it
        return ModelAllDefaults(n=j) if j % 2 == 0 else Model(x=j)
    if kind in "VW":
        if scheme in ("nonconv",):
            return {"id": f"bad{j}"}
        base = {"id": str(j + 5) if scheme in ("conv", "alt") else j + 5}
        if kind == "W":
            base.update({"tags": [f"t{j}"], "retries": 9})
        if scheme == "inst":
            return (EventV1 if kind == "V" else EventV2)(**base)
        return base
    if kind in "fTN":
        if scheme in ("conv", "alt") and (scheme == "conv" or j % 2 == 0):
            return {"f": str(j) + ".5", "T": [str(j), j + 1], "N": {"n": str(j)}}[kind]
        if scheme in ("nonconv", "alt"):
            return {"f": f"x{j}", "T": f"x{j}", "N": {"n": f"bad{j}"}}[kind]
        if scheme == "native":
            return {"f": j + 0.25, "T": [j, j], "N": {"n": j, "t": "n"}}[kind]
        return {"f": j, "T": [j], "N": ModelAllDefaults(n=j)}[kind]
    if scheme == "conv" or (scheme == "alt" and j % 2 == 0):
        if kind in ("M",):
            return {"x": str(10 + j), "y": f"y{j}"}
        if kind == "D":
            return {"p": str(20 + j), "q": f"q{j}"}
        return str(70 + j)
    if scheme == "nonconv" or scheme == "alt":
        if kind == "M":
            return {"x": f"bad{j}"}
        if kind == "D":
            return {"nope": j}
        return f"x{j}"
    if scheme == "native":
        if kind in ("i", "d", "I"):
            return 100 + j
        if kind == "s":
            return f"s{j}"
        if kind == "M":
            return {"x": 30 + j, "y": "n"}
        if kind == "D":
            return {"p": 40 + j, "q": "n"}
        return [j, {"k": [j, None, 1.5], "none": None, "u": "é☃"}, f"v{j}é"]
    if scheme == "inst":
        if kind == "M":
            return Model(x=50 + j, y=f"m{j}")
        if kind == "D":
            return DC(p=60 + j, q=f"d{j}")
        if kind in ("i", "d", "I"):
            return 200 + j
        return {"nested": [j, "z"]}
    raise AssertionError(scheme)


def wire_form(v: Any) -> Any:
    if isinstance(v, pydantic.BaseModel):
        return v.model_dump(mode="json")
    if dataclasses.is_dataclass(v) and not isinstance(v, type):
        return dataclasses.asdict(v)
    return v


ANNOT_OBJ = {"A": Any, "i": int, "s": str, "M": Model, "D": DC, "d": int, "I": int, "f": float, "T": TupleOfInt, "N": ModelAllDefaults, "V": EventV1, "W": EventV2}
_ADAPTERS: Dict[Any, Any] = {}


def expected_value(kind: str, sent: Any, validate: bool) -> Any:
    w = wire_form(sent)
    if not validate or kind in ("u", "U", "A", "K") or w is None:
        return w
    ann = ANNOT_OBJ[kind]
    ad = _ADAPTERS.get(ann)
    if ad is None:
        ad = _ADAPTERS[ann] = pydantic.TypeAdapter(ann)
    try:
        return ad.validate_python(w)
    except (ValueError, RuntimeError):
        return w


SCHEMES = ["conv", "nonconv", "native", "inst", "none", "alt", "falsy", "rep", "rep2", "nonemix"]


def _wrap_passthrough(fn: Any) -> Any:
    """An ordinary pass-through decorator written with functools.wraps (tracing, timing, ...)."""
    import functools

    @functools.wraps(fn)
    async def traced(*args: Any, **kwargs: Any) -> Any:
        return await fn(*args, **kwargs)

    return traced


def run_signature(sig: Tuple[str, str], acc: Acc, sers: List[str], wrap: bool = False) -> None:
    from taskiq.abc.broker import AsyncBroker
    from taskiq.abc.middleware import TaskiqMiddleware
    from taskiq.formatters.json_formatter import JSONFormatter
    from taskiq.formatters.proxy_formatter import ProxyFormatter
    from taskiq.receiver import Receiver
    from taskiq.serializers.pickle import PickleSerializer
    from mc.vloop import run_sync

    pos, tail = sig
    rec: List[Any] = []
    fn, names = build_function(pos, tail, rec)
    refsig_fn = fn
    if wrap:
        fn = _wrap_passthrough(fn)
        acc.count("wrapped_signatures")
    kinds = list(pos) + list(tail)
    real_pos = [j for j, k in enumerate(pos) if k not in "PCQ"]
    first_injected = next((j for j, k in enumerate(pos) if k in "PCQ"), len(pos))
    max_prefix = len([j for j in real_pos if j < first_injected])
    refsig = inspect.signature(refsig_fn)
    if any(k in "uAU" for k in pos[:-1]) and any(k in "isMDdfTN" for k in pos):
        first_un = next(j for j, k in enumerate(pos) if k == "u")if "u" in pos else 99
        if any(k in "isMDdfTN" and j > first_un for j, k in enumerate(pos)):
            acc.count("unannotated_before_annotated")
    for ser in sers:
        sent_msgs: List[Any] = []
        wire: List[bytes] = []

        class Spy(TaskiqMiddleware):
            def pre_send(self, message: Any) -> Any:
                sent_msgs.append(message.model_copy(deep=True))
                return message

        class B(AsyncBroker):
            async def kick(self, message: Any) -> None:
                wire.append(message.message)

            async def listen(self):  # pragma: no cover
                yield b""

        b = B()
        if ser == "pickle":
            b.serializer = PickleSerializer()
        b.add_middlewares(Spy())
        task = b.register_task(fn, task_name="c08:gen")
        formatters = [("proxy-" + ser, b.formatter)]
        if ser == "json":
            pb = B()
            pb.serializer = PickleSerializer()
            formatters += [("json-formatter", JSONFormatter()), ("proxy-pickle", ProxyFormatter(pb))]
        receivers = {v: Receiver(b, run_startup=False, validate_params=v, max_async_tasks=1) for v in (True, False)}
        for scheme in SCHEMES:
            for prefix in range(max_prefix + 1):
                for omit_default in (False, True):
                    args: List[Any] = []
                    kwargs: Dict[str, Any] = {}
                    skip = False
                    for j, k in enumerate(kinds):
                        nm = names[j]
                        if k in "PCQ":
                            continue
                        if k == "d" and omit_default:
                            if j < prefix:
                                skip = True
                            continue
                        v = value_for(k, scheme, j)
                        if j < len(pos) and j < prefix:
                            args.append(v)
                        else:
                            kwargs[nm] = v
                    if skip or (omit_default and "d" not in pos):
                        continue
                    try:
                        bound = refsig.bind_partial(*args, **kwargs)
                    except TypeError:
                        continue
                    variants = [(args, kwargs, bound)]
                    dep_names = [(names[j], k) for j, k in enumerate(pos) if k in "PQ"]
                    if dep_names and scheme in ("conv", "native") and not omit_default:
                        # the caller passes an explicit value for a dependency parameter: it must win and,
                        # for an annotated parameter, be converted like any other argument
                        kw2 = dict(kwargs)
                        for dn, dk in dep_names:
                            kw2[dn] = f"explicit-{dn}" if dk == "P" else ("77" if scheme == "conv" else 78)
                        try:
                            variants.append((args, kw2, refsig.bind_partial(*args, **kw2)))
                        except TypeError:
                            pass
                    for (args, kwargs, bound), validate in itertools.product(variants, (True, False)):
                        rec.clear()
                        wire.clear()
                        sent_msgs.clear()
                        err = None
                        try:
                            run_sync(task.kiq(*args, **kwargs))
                            run_sync(receivers[validate].callback(wire[0]))
                        except BaseException as exc:
                            err = exc
                        acc.evaluations += 1
                        acc.count("sends")
                        case = {"positional": pos, "kwonly": tail, "scheme": scheme, "prefix": prefix, "omit_default": omit_default,
                                "validate": validate, "serializer": ser, "wrapped": wrap}
                        acc.outcome((pos, tail, scheme, prefix, validate))
                        if err is not None or len(rec) != 1:
                            acc.violation("send-or-execute-failed", f"{case}: error={err!r}, executions={len(rec)}", {"case": case})
                            continue
                        got = rec[0]
                        for j, k in enumerate(kinds):
                            nm = names[j]
                            if k == "P":
                                want: Any = bound.arguments.get(nm, "DEP-VALUE")
                            elif k == "Q":
                                want = expected_value("i", bound.arguments[nm], validate) if nm in bound.arguments else 41
                            elif k == "C":
                                if not isinstance(got[nm], Context) or got[nm].message.task_name != "c08:gen":
                                    acc.violation("context-param", f"{case}: parameter {nm} received {got[nm]!r}", {"case": case})
                                continue
                            elif nm in bound.arguments:
                                want = expected_value(k, bound.arguments[nm], validate)
                                if validate and k in "isMDdIfTNVW" and want != wire_form(bound.arguments[nm]):
                                    acc.count("converted_params")
                            else:
                                want = 5  # omitted defaulted parameter
                            if got[nm] != want or type(got[nm]) is not type(want):
                                first_bad = "unannotated-before-annotated" if ("u" in pos[:j] or "u" in pos[j:]) and any(x in "isMDdfTN" for x in pos) else "other"
                                acc.violation(
                                    f"wrong-binding-{first_bad}",
                                    f"{case}: def gen_task({_sig_text(pos, tail)}) called with args={[wire_form(a) for a in args]!r} kwargs="
                                    f"{ {k_: wire_form(v_) for k_, v_ in kwargs.items()} !r}: parameter {nm} received {got[nm]!r}, expected {want!r}",
                                    {"case": case},
                                )
                                break
                        # formatter round trips on the message that was actually built
                        if validate and sent_msgs:
                            m = sent_msgs[0]
                            for fname, fmt in formatters:
                                try:
                                    back = fmt.loads(fmt.dumps(m).message)
                                    ok = back == m
                                except Exception as exc:
                                    ok = False
                                    back = exc
                                acc.count("roundtrips")
                                if not ok:
                                    acc.violation(f"formatter-roundtrip-{fname}", f"{case}: loads(dumps(m)) = {back!r} != {m!r}", {"case": case})
                        if acc.evaluations % 9973 == 1:
                            acc.sample({"def": f"gen_task({_sig_text(pos, tail)})", "args": [repr(wire_form(a)) for a in args],
                                        "kwargs": {k_: repr(wire_form(v_)) for k_, v_ in kwargs.items()}, "validate": validate,
                                        "serializer": ser, "received": {k_: repr(v_) for k_, v_ in got.items()}})


def _sig_text(pos: str, tail: str) -> str:
    parts = []
    for j, k in enumerate(pos):
        parts.append({"V": f"p{j}: Event(v1)", "W": f"p{j}: Event(v2)", "u": f"p{j}", "A": f"p{j}: Any", "i": f"p{j}: int", "s": f"p{j}: str", "M": f"p{j}: Model", "D": f"p{j}: DC",
                      "f": f"p{j}: float", "T": f"p{j}: Tuple[int, ...]", "N": f"p{j}: ModelAllDefaults", "K": f"p{j}: PlainCursor",
                      "d": f"p{j}: int = 5", "P": f"p{j}=Depends(dep)", "Q": f"p{j}: int = Depends(int_dep)", "C": f"p{j}: Context=Depends()"}[k])
    if tail:
        parts.append("*")
        parts += [f"k{j}: int" if k == "I" else f"k{j}" for j, k in enumerate(tail)]
    return ", ".join(parts)


# ---- values that are == and hash-equal but differ in type or sign, sent one after the other --------------
import datetime as _dt  # noqa: E402
import decimal as _dec  # noqa: E402
import math as _math  # noqa: E402

CONFUSABLE = [0, False, 0.0, -0.0, 1, True, 1.0, 5, 5.0, "1", "1.0", "True"]
CONF_ANNOT: Dict[str, Any] = {
    "Any": Any, "none": None, "float": float, "int": int, "str": str, "bool": bool, "IntOrFloat": typing.Union[int, float],
    "datetime": _dt.datetime, "Decimal": _dec.Decimal, "object": object,
}


def _strict_same(a: Any, b: Any) -> bool:
    if type(a) is not type(b):
        return False
    if isinstance(a, float):
        return (a == b and _math.copysign(1.0, a) == _math.copysign(1.0, b)) or (a != a and b != b)
    return a == b


def run_confusables(acc: Acc, only: Any = None) -> None:
    """Ordered pairs (and one message carrying both) of values that compare and hash equal - 1 / True / 1.0,
    0 / False / 0.0 / -0.0, 5 / 5.0 - or look alike ('1'), sent one after the other in this process to the
    same annotation: each must arrive as TypeAdapter(annotation).validate_python(value) says, type and sign
    included, whatever was sent before."""
    from taskiq.abc.broker import AsyncBroker
    from taskiq.receiver import Receiver
    from mc.vloop import run_sync

    for aname, ann in CONF_ANNOT.items():
        rec: List[Any] = []
        ns: Dict[str, Any] = {"rec": rec, "ANN": ann}
        if ann is None:
            exec("async def conf_task(a, b=None):\n    rec.append((a, b))\n", ns)  # noqa: S102
        else:
            exec("async def conf_task(a: ANN, b: ANN = None):\n    rec.append((a, b))\n", ns)  # noqa: S102
        fn = ns["conf_task"]
        fn.__module__ = "mc.props.c08"
        wire: List[bytes] = []

        class B(AsyncBroker):
            async def kick(self, message: Any) -> None:
                wire.append(message.message)

            async def listen(self):  # pragma: no cover
                yield b""

        b = B()
        task = b.register_task(fn, task_name=f"c08:conf:{aname}")
        recv = Receiver(b, run_startup=False, validate_params=True, max_async_tasks=1)
        ad = pydantic.TypeAdapter(ann) if ann is not None else None

        def want(v: Any) -> Any:
            if ad is None:
                return v
            try:
                return ad.validate_python(v)
            except (ValueError, RuntimeError):
                return v

        def send(args: Tuple[Any, ...], history: List[Any]) -> None:
            rec.clear()
            wire.clear()
            err = None
            try:
                run_sync(task.kiq(*args))
                run_sync(recv.callback(wire[0]))
            except BaseException as exc:
                err = exc
            acc.evaluations += 1
            acc.count("sends")
            acc.count("confusable_sends")
            case = {"confusable": {"annotation": aname, "history": [repr(h) for h in history], "args": [repr(a) for a in args]}}
            if err is not None or len(rec) != 1:
                acc.violation("send-or-execute-failed", f"{case}: error={err!r}, executions={len(rec)}", case)
                return
            got = rec[0]
            for j, v in enumerate(args):
                w = want(v)
                acc.outcome(("conf", aname, repr(v), type(w).__name__))
                if not _strict_same(got[j], w):
                    acc.violation(
                        "value-changed-by-earlier-send",
                        f"parameter {'ab'[j]}: {aname} was sent {v!r} after {[repr(h) for h in history]} and received {got[j]!r} "
                        f"({type(got[j]).__name__}), expected {w!r} ({type(w).__name__})",
                        case,
                    )
                    return

        for v1, v2 in itertools.permutations(CONFUSABLE, 2):
            if only is not None and [aname, repr(v1), repr(v2)] != only:
                continue
            send((v1,), [])
            send((v2,), [v1])
            send((v1, v2), [v1, v2])


CLASH_PAIRS = [("i", "u"), ("u", "i"), ("si", "is"), ("is", "uu"), ("iC", "i"), ("M", "u"), ("u", "M"), ("fd", "sP"), ("ii", "ii")]


def run_name_clash(acc: Acc, only: Any = None) -> None:
    """A task name registered both on a shared broker (library default) and on the worker's own broker
    (application override) with a different signature: the worker executes the local function and must
    bind and convert the arguments by the local function's signature."""
    from taskiq.abc.broker import AsyncBroker
    from taskiq.brokers.shared_broker import AsyncSharedBroker
    from taskiq.receiver import Receiver
    from mc.vloop import run_sync

    saved_global = dict(AsyncBroker.global_task_registry)
    try:
        for local_pos, shared_pos in CLASH_PAIRS:
            if only is not None and [local_pos, shared_pos] != only:
                continue
            for order in ("shared-first", "local-first"):
                AsyncBroker.global_task_registry.clear()
                rec_l: List[Any] = []
                rec_s: List[Any] = []
                fn_l, names = build_function(local_pos, "", rec_l)
                fn_s, _ = build_function(shared_pos, "", rec_s)
                wire: List[bytes] = []

                class B(AsyncBroker):
                    async def kick(self, message: Any) -> None:
                        wire.append(message.message)

                    async def listen(self):  # pragma: no cover
                        yield b""

                b = B()
                sb = AsyncSharedBroker()
                if order == "shared-first":
                    sb.register_task(fn_s, task_name="c08:clash")
                    task = b.register_task(fn_l, task_name="c08:clash")
                else:
                    task = b.register_task(fn_l, task_name="c08:clash")
                    sb.register_task(fn_s, task_name="c08:clash")
                for validate in (True, False):
                    recv = Receiver(b, run_startup=False, validate_params=validate, max_async_tasks=1)
                    for scheme in ("conv", "native"):
                        args = [value_for(k, scheme, j) for j, k in enumerate(local_pos) if k not in "PCQ"]
                        rec_l.clear()
                        rec_s.clear()
                        wire.clear()
                        err = None
                        try:
                            run_sync(task.kiq(*args))
                            run_sync(recv.callback(wire[0]))
                        except BaseException as exc:
                            err = exc
                        acc.evaluations += 1
                        acc.count("sends")
                        acc.count("name_clash_sends")
                        case = {"name_clash": [local_pos, shared_pos], "order": order, "scheme": scheme, "validate": validate}
                        acc.outcome(("clash", local_pos, shared_pos, scheme, validate))
                        if err is not None or len(rec_l) != 1 or rec_s:
                            acc.violation("clash-wrong-function-or-failed", f"{case}: error={err!r}, local executions={len(rec_l)}, shared executions={len(rec_s)}", case)
                            continue
                        got = rec_l[0]
                        k_args = [k for k in local_pos if k not in "PCQ"]
                        for j, k in enumerate(local_pos):
                            nm = names[j]
                            if k == "C":
                                if not isinstance(got[nm], Context):
                                    acc.violation("clash-binding", f"{case}: local def gen_task({_sig_text(local_pos, '')}): Context parameter {nm} received {got[nm]!r}", case)
                                continue
                            if k == "P":
                                want: Any = "DEP-VALUE"
                            elif k == "Q":
                                want = 41
                            else:
                                want = expected_value(k, args[k_args.index(k) if k_args.count(k) == 1 else j], validate)
                            if got[nm] != want or type(got[nm]) is not type(want):
                                acc.violation(
                                    "clash-binding",
                                    f"{case}: local def gen_task({_sig_text(local_pos, '')}) (a shared task of the same name is def gen_task({_sig_text(shared_pos, '')})) "
                                    f"called with {[wire_form(a) for a in args]!r}: parameter {nm} received {got[nm]!r}, expected {want!r}",
                                    case,
                                )
                                break
    finally:
        AsyncBroker.global_task_registry.clear()
        AsyncBroker.global_task_registry.update(saved_global)


def shards(tier: str, seed: int) -> List[Any]:
    sigs = signatures(tier)
    step = 12 if tier == "quick" else 25
    return [{"tier": tier, "lo": i, "hi": min(i + step, len(sigs))} for i in range(0, len(sigs), step)] + [{"confusables": True}, {"name_clash": True}]


def run_shard(shard: Dict[str, Any]) -> Dict[str, Any]:
    acc = Acc()
    if shard.get("confusables"):
        run_confusables(acc)
        return acc.as_dict()
    if shard.get("name_clash"):
        run_name_clash(acc)
        return acc.as_dict()
    sigs = signatures(shard["tier"])
    for sig in sigs[shard["lo"] : shard["hi"]]:
        run_signature(sig, acc, ["json", "pickle"])
        if len(sig[0]) + len(sig[1]) <= 2 or shard["tier"] == "thorough":
            # the same task behind a functools.wraps pass-through decorator
            run_signature(sig, acc, ["json"], wrap=True)
    return acc.as_dict()


def replay(obj: Dict[str, Any]) -> int:
    acc = Acc()
    if "name_clash" in obj:
        run_name_clash(acc, only=obj["name_clash"])
        for k, v in acc.violations.items():
            print("oracle:", k, "-", v["message"])
        return 1 if acc.violations else 0
    if "confusable" in obj:
        run_confusables(acc)  # the whole family in the recorded order: the violation depends on what was sent before
        for k, v in acc.violations.items():
            print("oracle:", k, "-", v["message"])
        return 1 if acc.violations else 0
    c = obj["case"]
    run_signature((c["positional"], c["kwonly"]), acc, [c["serializer"]], wrap=bool(c.get("wrapped")))
    for k, v in acc.violations.items():
        print("oracle:", k, "-", v["message"])
    return 1 if acc.violations else 0
