"""C17 - process manager (E2): see mc/procworld.py, mc/proc_monitor.py."""
from __future__ import annotations

from typing import Any, Dict, List

from mc.common import Acc
from mc.proc_driver import explore_config, explore_long
from mc.proc_driver import replay as _replay

META = {
    "kind": "graph",
    "engine": "E2 BFS to fixpoint over tick histories of the real ProcessManager.start() on a fake OS",
    "rule": "for every (workers in 1..3, max_fails in {-1,0,1,2,3}) all tick histories over the alphabet {subset of workers dies} x {none, SIGHUP, SIGINT, SIGTERM, file change} x {subset of restarted workers crash at start} (+ bounded deviations) are explored breadth-first with de-duplication on the canonical state (per-slot process state, action queue, every local variable of the suspended start() frame and every plain attribute of the manager - so state a change adds there is never merged away -, monitor state) until no new state appears (fixpoint); in addition every history of 6 (quick) / 8 (thorough) ticks over the 5-letter alphabet {nothing, SIGHUP, file change, worker 0 dies, SIGINT} is run without state matching (guard against state the canonical form cannot see). Oracle C17: at every Process.start() no other live process has the same slot name and the previous occupant was joined; the number and names of slots never change; a worker that died in tick t (ground truth of the fake OS, whether or not the manager looked at it) is replaced by the end of tick t+1 unless the manager returned. distinct_nontrivial = distinct (configuration, exit, facts) outcomes. Further configurations with WorkerArgs options the manager reads (wait_tasks_timeout 0 / 2.0 with shutdown_timeout, max_tasks_per_child) and workers that exit on their own with status 0. After start-up every slot holds a started process; more than 20000 queue/process operations within one tick without reaching sleep() is the violation supervision-loop-never-sleeps; --reload wiring: the observer gets one FileWatcher for '.' whose callback queues a reload-all on the manager's queue and whose gitignore switch follows --do-not-use-gitignore.",
    "assumptions": [
        "fake multiprocessing.Process/Queue/Event, os.kill, signal.signal, sleep stand for the OS (Linux semantics: kill on a reaped pid raises ProcessLookupError, on a zombie succeeds; is_alive()/join() reap)",
        "per tick: any subset of workers dies, at most one signal/file event, any subset of restarted workers crashes before its start-up wait; deviations (signal between drain and scan, Queue.empty() lag) bounded per history",
        "the long random histories of the property's quantifier are sampling and are not performed",
    ],
    "required_counters": ["configs", "configs_at_fixpoint", "terminal_histories", "fact_dead-observed", "fact_restart"],
    "bounds": {"quick": {"workers": [1, 2, 3], "max_fails": [-1, 0, 1, 2, 3], "deviations": 1, "depth_fallback": 6},
               "thorough": {"workers": [1, 2, 3], "max_fails": [-1, 0, 1, 2, 3], "deviations": 2, "depth_fallback": 10}},
}


def shards(tier: str, seed: int) -> List[Any]:
    dev = 1 if tier == "quick" else 2
    depth = 6 if tier == "quick" else 10
    out = []
    for w in (1, 2, 3):
        for mf in (-1, 0, 1, 2, 3):
            d = dev
            if w == 3 and tier == "quick":
                d = 0  # 3 workers: the plain alphabet already has 320 letters per tick
            out.append({"workers": w, "max_fails": mf, "dev": d, "depth": depth})
    for w, mf in ((1, -1), (1, 3), (2, -1)):
        out.append({"workers": w, "max_fails": mf, "long": 6 if tier == "quick" else 8})
    # further worker options the manager reads: a bounded task wait, a task quota per child; workers that exit
    # on their own with status 0
    for opts in ({"wait_tasks_timeout": 0.0, "shutdown_timeout": 0.0}, {"wait_tasks_timeout": 2.0}, {"max_tasks_per_child": 3, "exit0": True},
                 {"max_tasks_per_child": 3}, {"exit0": True}):
        for w, mf in (((1, 2), (2, -1), (2, 2)) if tier == "quick" else ((1, 2), (2, -1), (2, 1), (2, 2), (3, 3))):
            out.append({"workers": w, "max_fails": mf, "dev": 0 if tier == "quick" else 1, "depth": depth, "opts": opts})
    out.append({"wiring": True})
    return out


def run_shard(shard: Dict[str, Any]) -> Dict[str, Any]:
    acc = Acc()
    if shard.get("wiring"):
        # file-change events reach the manager through a watchdog observer: --reload wiring
        from mc.cli_wiring import check_watcher_wiring

        check_watcher_wiring(acc)
        return acc.as_dict()
    if shard.get("long"):
        explore_long("C17", shard["workers"], shard["max_fails"], shard["long"], acc)
        return acc.as_dict()
    explore_config("C17", shard["workers"], shard["max_fails"], shard["dev"], shard["depth"], acc, shard.get("opts"))
    return acc.as_dict()


def replay(obj: Dict[str, Any]) -> int:
    return _replay(obj)
