"""C19 - any task exception survives result serialisation (E3)."""
from __future__ import annotations

import itertools
import json
import math
import pickle
import sys
import threading
import types
from typing import Any, Dict, List, Optional, Tuple

from mc.common import Acc

META = {
    "kind": "inputs",
    "engine": "E3 bounded-exhaustive enumeration of exception objects / chains through TaskiqResult JSON-text, JSON-dict, python-dict and pickle round trips",
    "rule": (
        "(a) every single exception over class kinds {builtin, module-level custom, nested class, local class, dynamically "
        "created with missing / None module, custom __init__ signature, keyword-only init, BaseException subclasses, OSError "
        "family, UnicodeDecodeError, ExceptionGroup, class with falsy __bool__ / __len__} x args tuples of arity <= 2 over "
"{JSON-native values, tuple, set, bytes, int-keyed dict, deep / recursive list, lambda, object with failing "
        "__repr__/__str__, un-picklable object, object that pickles but cannot be unpickled (also inside a list), an "
        "exception instance, lone-surrogate str, NaN}; (b) every chain shape of depth <= 3 over link kinds "
        "{cause, context, suppressed context, both to the same node, both to different nodes}; (c) every linear chain of depth "
        "<= 6 with per-edge link kind and every back-edge (cycle) position; (d) every exception graph over 3 nodes, and over 4 nodes with node 3 a leaf (thorough: every graph over 4 nodes) (per node "
        "any cause, any context, suppress flag; incl. self-loops, cycles and nodes reachable by several routes); each through four round trips (JSON text, JSON "
        "dict via model_dump(mode='json') + json, python dict, pickle). Oracle: no exception from dump or load; the loaded "
        "error is an exception; if the class resolves by module + qualname, is reconstructible from its args and every arg is "
        "representable in the encoding, then same class and equal args, else an allowed stand-in (same-named synthetic class, a "
        "base class of the original, or a generic/wrapper exception whose text names the original class); for the JSON trips "
        "the cause / context-unless-suppressed / suppress flag structure equals the original's unfolding with back-edges cut. "
        "The oracle never calls repr/str on loaded arguments. distinct_nontrivial = distinct (class kind, arg kinds, trip, verdict class)."
        " Exception classes defining __eq__ without __hash__ (unhashable) and with a value hash, alone, at every chain position and as four value-equal twins in one chain."
    ),
    "assumptions": ["classes are planted in a module registered in sys.modules; pickling happens in-process"],
    "required_counters": ["roundtrips", "exact_reconstructions", "standins", "chains_checked", "cycles_cut", "graphs_checked"],
    "bounds": {"quick": {"arity": 2, "chain_depth": 4}, "thorough": {"arity": 2, "chain_depth": 6}},
}

TRIPS = ["json-text", "json-dict", "py-dict", "pickle"]


# ------------------------------------------------------------------------------------------ planted classes

def _plant() -> Any:
    if "vexc" in sys.modules:
        return sys.modules["vexc"]
    m = types.ModuleType("vexc")

    class Plain(Exception):
        pass

    class PlainBase(BaseException):
        pass

    class CustomInit(Exception):
        def __init__(self, a: Any, b: Any) -> None:
            super().__init__(f"{a}-{b}")
            self.a, self.b = a, b

    class KwOnly(Exception):
        def __init__(self, *, code: int = 0) -> None:
            super().__init__(f"code={code}")
            self.code = code

    class Outer:
        class Inner(Exception):
            pass

    class FalsyBool(Exception):
        def __bool__(self) -> bool:
            return False

    class FalsyLen(Exception):
        def __len__(self) -> int:
            return 0

    class NegCode(Exception):
        """args are not acceptable constructor arguments: cls(*args) raises ValueError, not TypeError."""

        def __init__(self, code: int) -> None:
            if code < 0:
                raise ValueError("code must not be negative")
            super().__init__(-code)

    class EqNoHash(Exception):
        """Defines __eq__ only: instances are unhashable (like a non-frozen dataclass exception)."""

        def __eq__(self, other: Any) -> bool:
            return type(other) is type(self) and other.args == self.args

    class EqHash(Exception):
        """Value equality and hash: two distinct instances with equal args are == and hash-equal."""

        def __eq__(self, other: Any) -> bool:
            return type(other) is type(self) and other.args == self.args

        def __hash__(self) -> int:
            return hash((type(self).__name__, self.args))

    class ChildOfPlain(Plain):
        def __init__(self, x: Any, y: Any = None, z: Any = None) -> None:
            super().__init__(x)
            self.lock = threading.Lock()  # makes instances un-picklable

    for c in (Plain, PlainBase, CustomInit, KwOnly, Outer, FalsyBool, FalsyLen, ChildOfPlain, NegCode, EqNoHash, EqHash):
        c.__module__ = "vexc"
        c.__qualname__ = c.__name__
        setattr(m, c.__name__, c)
    Outer.Inner.__module__ = "vexc"
    Outer.Inner.__qualname__ = "Outer.Inner"
    sys.modules["vexc"] = m
    return m


def class_table() -> Dict[str, Any]:
    m = _plant()

    def local() -> Any:
        class LocalErr(Exception):
            pass
        return LocalErr

    Dyn = type("DynMissing", (Exception,), {"__module__": "vexc_not_loaded"})
    DynNone = type("DynNone", (Exception,), {"__module__": None})
    return {
        "ValueError": ValueError, "KeyError": KeyError, "KeyboardInterrupt": KeyboardInterrupt, "SystemExit": SystemExit,
        "GeneratorExit": GeneratorExit, "Plain": m.Plain, "PlainBase": m.PlainBase, "Inner": m.Outer.Inner, "Local": local(),
        "DynMissing": Dyn, "DynNone": DynNone, "FalsyBool": m.FalsyBool, "FalsyLen": m.FalsyLen,
        "EqNoHash": m.EqNoHash, "EqHash": m.EqHash,
    }


class BadRepr:
    def __repr__(self) -> str:
        raise RuntimeError("no repr")

    def __str__(self) -> str:
        raise RuntimeError("no str")


class OnlyStr:
    def __repr__(self) -> str:
        raise RuntimeError("no repr")

    def __str__(self) -> str:
        return "only-str"


def arg_values() -> List[Tuple[str, Any]]:
    deep: Any = []
    cur = deep
    for _ in range(60):
        nxt: Any = []
        cur.append(nxt)
        cur = nxt
    rec: Any = [1]
    rec.append(rec)
    return [
        ("int", 1), ("str", "s"), ("float", 1.5), ("none", None), ("bool", True), ("list", [1, "a"]), ("dict", {"k": 1}),
        ("tuple", (1, 2)), ("set", {1}), ("bytes", b"x"), ("intdict", {1: 2}), ("deep", deep), ("recursive", rec),
        ("lambda", lambda: 0), ("badrepr", BadRepr()), ("onlystr", OnlyStr()), ("lock", threading.Lock()),
        ("surrogate", "\ud800"), ("nan", float("nan")), ("bigint", 2**70), ("uni", "é☃"),
        # encodes but cannot be decoded again: an exception whose __init__ signature differs from its args
        ("dumps_only_exc", _plant().CustomInit("a", 2)), ("list_with_dumps_only", [1, _plant().CustomInit("b", 3)]),
        ("plain_exc_arg", ValueError("inner", 1)),
    ]


def special_instances() -> List[Tuple[str, BaseException]]:
    m = _plant()
    out: List[Tuple[str, BaseException]] = [
        ("OSError2", OSError(2, "No such file")),
        ("OSError3", OSError(2, "No such file", "/tmp/x")),
        ("FileNotFoundError", FileNotFoundError(2, "nf")),
        ("UnicodeDecodeError", UnicodeDecodeError("utf-8", b"\xff", 0, 1, "bad")),
        ("ExceptionGroup", ExceptionGroup("grp", [ValueError(1), KeyError("k")])),
        ("CustomInit", m.CustomInit("a", 2)),
        ("KwOnly", m.KwOnly(code=7)),
        ("ChildOfPlain", m.ChildOfPlain("x", 1)),
        ("NegCode", m.NegCode(5)),
        ("StopIteration", StopIteration(3)),
        ("SystemExit0", SystemExit(0)),
        ("AssertionErrorEmpty", AssertionError()),
        ("KeyErrorTuple", KeyError(("a", 1))),
        ("OSErrorSurrogateName", OSError(2, "No such file", "/tmp/\udcff")),
    ]
    try:
        json.loads("{bad")
    except json.JSONDecodeError as e:
        out.append(("JSONDecodeError", e))
    return out


# ------------------------------------------------------------------------------------------ oracle helpers

def resolves(cls: Any) -> bool:
    mod = getattr(cls, "__module__", None)
    if mod is None or mod not in sys.modules:
        return False
    cur: Any = sys.modules[mod]
    for part in getattr(cls, "__qualname__", cls.__name__).split("."):
        cur = getattr(cur, part, None)
        if cur is None:
            return False
    return cur is cls


def json_representable(v: Any) -> bool:
    try:
        back = json.loads(json.dumps(v))
    except Exception:
        return False
    return _same(v, back)


def _same(a: Any, b: Any) -> bool:
    if type(a) is not type(b):
        return False
    if isinstance(a, float):
        return a == b  # NaN is not representable (never equal)
    if isinstance(a, str):
        try:
            a.encode("utf-8")
        except UnicodeEncodeError:
            return False
        return a == b
    if isinstance(a, list):
        return len(a) == len(b) and all(_same(x, y) for x, y in zip(a, b))
    if isinstance(a, dict):
        return list(a) == list(b) and all(_same(a[k], b[k]) for k in a)
    return a == b


def pickle_representable(v: Any) -> bool:
    try:
        back = pickle.loads(pickle.dumps(v))
    except Exception:
        return False
    try:
        return type(back) is type(v) and (back == v or (isinstance(v, float) and math.isnan(v)))
    except Exception:
        return False


def reconstructible(exc: BaseException) -> bool:
    try:
        again = type(exc)(*exc.args)
        return again.args == exc.args
    except Exception:
        return False


def is_standin(loaded: BaseException, orig: BaseException) -> bool:
    oc = type(orig)
    if type(loaded).__name__ in (oc.__name__, getattr(oc, "__qualname__", oc.__name__)):
        return True
    if type(loaded) in oc.__mro__:
        return True
    text = ""
    try:
        text = str(loaded) + " " + repr(type(loaded))
        text += " " + " ".join(str(a) for a in loaded.args if isinstance(a, str))
    except Exception:
        pass
    return oc.__name__ in text


def unfold(exc: Optional[BaseException], path: Tuple[int, ...], depth: int = 0) -> Any:
    if exc is None or id(exc) in path or depth > 12:
        return None
    p = path + (id(exc),)
    cause = unfold(exc.__cause__, p, depth + 1)
    ctx = None
    if exc.__context__ is not None and not exc.__suppress_context__:
        ctx = unfold(exc.__context__, p, depth + 1)
    return (type(exc), cause, ctx, bool(exc.__suppress_context__), exc)


def compare_structure(loaded: Optional[BaseException], want: Any, where: str) -> Optional[str]:
    if want is None:
        return None if loaded is None else f"{where}: unexpected link to {type(loaded).__name__}"
    if loaded is None:
        return f"{where}: link to {want[0].__name__} lost"
    cls, cause, ctx, sup, orig = want
    if not (type(loaded) is cls or is_standin(loaded, orig)):
        return f"{where}: {type(loaded).__name__} does not stand for {cls.__name__}"
    if bool(loaded.__suppress_context__) != sup:
        return f"{where}: __suppress_context__ is {loaded.__suppress_context__}, original {sup}"
    r = compare_structure(loaded.__cause__, cause, where + ".cause")
    if r:
        return r
    return compare_structure(loaded.__context__, ctx, where + ".context")


# ------------------------------------------------------------------------------------------ round trips

def roundtrip(trip: str, exc: BaseException) -> Tuple[Optional[BaseException], Optional[str], Optional[BaseException]]:
    """Returns (loaded error, stage that failed, exception raised)."""
    from taskiq.result import TaskiqResult

    try:
        res = TaskiqResult(is_err=True, return_value=None, execution_time=0.1, error=exc, labels={})
    except BaseException as e:
        return None, "construct", e
    stage = "dump"
    try:
        if trip == "json-text":
            data = res.model_dump_json()
            stage = "load"
            back = TaskiqResult.model_validate_json(data)
        elif trip == "json-dict":
            d = json.loads(json.dumps(res.model_dump(mode="json")))
            stage = "load"
            back = TaskiqResult.model_validate(d)
        elif trip == "py-dict":
            d = res.model_dump()
            stage = "load"
            back = TaskiqResult.model_validate(d)
        else:
            data = pickle.dumps(res)
            stage = "load"
            back = pickle.loads(data)
    except BaseException as e:
        return None, stage, e
    return back.error, None, None


def has_surrogate(v: Any, depth: int = 0) -> bool:
    if depth > 6:
        return False
    if isinstance(v, str):
        try:
            v.encode("utf-8")
            return False
        except UnicodeEncodeError:
            return True
    if isinstance(v, (list, tuple, set)):
        return any(has_surrogate(x, depth + 1) for x in v)
    if isinstance(v, dict):
        return any(has_surrogate(k, depth + 1) or has_surrogate(x, depth + 1) for k, x in v.items())
    return False


def _falsy(exc: BaseException) -> bool:
    try:
        return not bool(exc)
    except Exception:
        return False


def _graph_has_falsy(exc: BaseException) -> bool:
    seen = set()
    stack = [exc]
    while stack:
        e = stack.pop()
        if e is None or id(e) in seen:
            continue
        seen.add(id(e))
        if _falsy(e):
            return True
        stack += [e.__cause__, e.__context__]
    return False


def check(name: str, argkinds: Tuple[str, ...], exc: BaseException, trip: str, acc: Acc, chain: bool = False, rp: Any = None) -> None:
    loaded, stage, err = roundtrip(trip, exc)
    acc.evaluations += 1
    acc.count("roundtrips")
    case = f"{name}{list(argkinds)} via {trip}"
    rp = rp or {"single": [name, list(argkinds), trip]}
    falsy = _graph_has_falsy(exc)
    if stage is not None:
        key = f"{stage}-failed-{type(err).__name__}"
        if trip == "json-text" and stage == "dump" and any(has_surrogate(a) for a in _all_args(exc)):
            key = "D10-lone-surrogate-breaks-json-text-dump"
        elif falsy:
            key = "D11-falsy-exception-lost"
        acc.outcome((name.split(":")[0], tuple(sorted(set(argkinds))), trip, key))
        acc.violation(key, f"{case}: {stage} raised {type(err).__name__}: {str(err)[:300]}", rp)
        return
    if loaded is None or not isinstance(loaded, BaseException):
        key = "D11-falsy-exception-lost" if falsy else "loaded-error-not-an-exception"
        acc.violation(key, f"{case}: loaded error is {loaded!r}", rp)
        return
    enc_ok = pickle_representable if trip == "pickle" else json_representable
    args_ok = all(enc_ok(a) for a in exc.args)
    if trip == "pickle":
        exact = args_ok and reconstructible(exc) and resolves(type(exc)) and _picklable(exc)
    else:
        exact = args_ok and reconstructible(exc) and resolves(type(exc))
    if exact:
        acc.count("exact_reconstructions")
        same_args = False
        try:
            same_args = len(loaded.args) == len(exc.args) and all(
                _same(a, b) or a == b or (isinstance(a, float) and isinstance(b, float) and math.isnan(a) and math.isnan(b))
                for a, b in zip(exc.args, loaded.args)
            )
        except Exception:
            pass
        if type(loaded) is not type(exc) or not same_args:
            acc.violation(
                "not-reconstructed",
                f"{case}: class importable and args representable, but loaded {type(loaded).__module__}.{type(loaded).__qualname__} with {len(loaded.args)} args",
                rp,
            )
            return
        acc.outcome((name.split(":")[0], tuple(sorted(set(argkinds))), trip, "exact"))
    else:
        acc.count("standins")
        if not is_standin(loaded, exc):
            acc.violation("standin-does-not-name-original", f"{case}: loaded {type(loaded).__qualname__} does not stand for {type(exc).__qualname__}", rp)
            return
        acc.outcome((name.split(":")[0], tuple(sorted(set(argkinds))), trip, "standin:" + type(loaded).__name__))
    if chain and trip != "pickle":
        acc.count("chains_checked")
        want = unfold(exc, ())
        r = compare_structure(loaded, want, "error")
        if r:
            key = "D11-falsy-exception-lost" if falsy else "chain-structure"
            acc.violation(key, f"{case}: {r}", rp)


def _picklable(exc: BaseException) -> bool:
    try:
        pickle.loads(pickle.dumps(exc))
        return True
    except Exception:
        return False


def _all_args(exc: BaseException) -> List[Any]:
    out: List[Any] = []
    seen = set()
    stack = [exc]
    while stack:
        e = stack.pop()
        if e is None or id(e) in seen:
            continue
        seen.add(id(e))
        out += list(getattr(e, "args", ()))
        for a in ("filename", "filename2"):
            if hasattr(e, a):
                out.append(getattr(e, a))
        stack += [e.__cause__, e.__context__]
    return out


# ------------------------------------------------------------------------------------------ chains

LINKS = ["cause", "context", "ctx_suppressed"]


def link(parent: BaseException, child: BaseException, kind: str) -> None:
    if kind == "cause":
        parent.__cause__ = child  # also sets __suppress_context__
    elif kind == "context":
        parent.__context__ = child
    elif kind == "ctx_suppressed":
        parent.__context__ = child
        parent.__suppress_context__ = True
    elif kind == "both_same":
        parent.__context__ = child
        parent.__cause__ = child
    else:
        raise AssertionError(kind)


def chain_cases(tier: str) -> List[Tuple[Any, ...]]:
    out: List[Tuple[Any, ...]] = []
    depth = 4 if tier == "quick" else 6
    for n in range(2, depth + 1):
        for kinds in itertools.product(LINKS, repeat=n - 1):
            if tier == "quick" and n == 4 and kinds[0] == "ctx_suppressed":
                continue
            out.append(("linear", n, kinds, None))
            # back edges from the last node to every earlier node
            for j in range(n):
                for bk in ("cause", "context"):
                    if tier == "quick" and n >= 4 and bk == "context" and j not in (0, n - 1):
                        continue
                    if tier == "thorough" and n >= 6 and (bk == "context" and j % 2):
                        continue
                    out.append(("linear", n, kinds, (j, bk)))
    # shapes of depth <= 3 with both links
    for k1, k2 in itertools.product(LINKS + ["both_same"], repeat=2):
        out.append(("tree", k1, k2, "diff"))
        out.append(("tree", k1, k2, "shared"))
    return out


def build_chain(case: Tuple[Any, ...]) -> BaseException:
    t = class_table()
    pool = [t["ValueError"], t["Plain"], t["KeyError"], t["Inner"], t["DynMissing"], t["PlainBase"], t["Local"]]
    if case[0] == "linear":
        _, n, kinds, back = case
        nodes = [pool[i % len(pool)](f"n{i}", i) for i in range(n)]
        for i, k in enumerate(kinds):
            link(nodes[i], nodes[i + 1], k)
        if back is not None:
            j, bk = back
            if bk == "cause":
                sup = nodes[-1].__suppress_context__
                nodes[-1].__cause__ = nodes[j]
            else:
                nodes[-1].__context__ = nodes[j]
        return nodes[0]
    _, k1, k2, mode = case
    root = t["ValueError"]("root")
    a = t["Plain"]("a", 1)
    b = t["KeyError"]("b")
    c = t["Inner"]("c")
    # root has both a cause and a context (different nodes), a -> c, b -> c (shared) or b -> other
    root.__context__ = b
    root.__cause__ = a
    if k1 == "ctx_suppressed":
        root.__suppress_context__ = True
    elif k1 == "context":
        root.__suppress_context__ = False
    link(a, c, k2)
    link(b, c if mode == "shared" else t["DynMissing"]("d"), k2 if k1 != "both_same" else "cause")
    return root


def graph_cases(tier: str) -> List[Tuple[Any, ...]]:
    """Every exception graph over 3 nodes: per node cause in {None, any node}, context in {None,
    any node}, explicit __suppress_context__ (quick: varied on the root only); node 0 is the
    raised exception; graphs with a node unreachable from it are skipped (they are covered by a
    smaller graph)."""
    n = 3
    opts = [None] + list(range(n))
    out = []
    sup_opts = [(False,) * n, (True,) + (False,) * (n - 1)] if tier == "quick" else list(itertools.product((False, True), repeat=n))
    for causes in itertools.product(opts, repeat=n):
        for ctxs in itertools.product(opts, repeat=n):
            reach = {0}
            stack = [0]
            while stack:
                k = stack.pop()
                for t in (causes[k], ctxs[k]):
                    if t is not None and t not in reach:
                        reach.add(t)
                        stack.append(t)
            if len(reach) != n:
                continue
            for sup in sup_opts:
                out.append((causes, ctxs, sup))
    return out


_G4: Dict[str, List[Tuple[Any, ...]]] = {}


def graph4_cases(tier: str) -> List[Tuple[Any, ...]]:
    """Exception graphs over 4 nodes (a node reachable by two routes *and* a cycle *and* a further link need
    four): quick - node 3 is a leaf (no links of its own), all links of nodes 0..2 into {None, 0..3};
    thorough - every graph. __suppress_context__ False everywhere / True on the root. Node 0 is raised."""
    if tier in _G4:
        return _G4[tier]
    n = 4
    opts = [None] + list(range(n))
    leaf_opts = [None] if tier == "quick" else opts
    out = []
    for causes in itertools.product(opts, opts, opts, leaf_opts):
        for ctxs in itertools.product(opts, opts, opts, leaf_opts):
            reach = {0}
            stack = [0]
            while stack:
                k = stack.pop()
                for t in (causes[k], ctxs[k]):
                    if t is not None and t not in reach:
                        reach.add(t)
                        stack.append(t)
            if len(reach) != n:
                continue
            out.append((causes, ctxs, (False,) * n))
            if causes[0] is not None and ctxs[0] is not None:
                out.append((causes, ctxs, (True,) + (False,) * (n - 1)))
    _G4[tier] = out
    return out


def build_graph(case: Tuple[Any, ...]) -> BaseException:
    t = class_table()
    causes, ctxs, sup = case
    pool = [t["ValueError"], t["Plain"], t["Inner"], t["KeyError"]]
    nodes = [pool[i](f"g{i}", i) for i in range(len(causes))]
    for i, nd in enumerate(nodes):
        if ctxs[i] is not None:
            nd.__context__ = nodes[ctxs[i]]
        if causes[i] is not None:
            nd.__cause__ = nodes[causes[i]]
        nd.__suppress_context__ = sup[i]
    return nodes[0]


# ------------------------------------------------------------------------------------------ driver

def single_cases() -> List[Tuple[str, Tuple[int, ...]]]:
    names = sorted(class_table())
    nvals = len(arg_values())
    out = []
    for nm in names:
        out.append((nm, ()))
        for i in range(nvals):
            out.append((nm, (i,)))
        for i, j in itertools.product(range(nvals), repeat=2):
            out.append((nm, (i, j)))
    return out


def shards(tier: str, seed: int) -> List[Any]:
    n = len(single_cases())
    out: List[Any] = [("single", tier, i, min(i + 400, n)) for i in range(0, n, 400)]
    out.append(("special", tier, 0, 0))
    m = len(chain_cases(tier))
    out += [("chain", tier, i, min(i + 150, m)) for i in range(0, m, 150)]
    g = len(graph_cases(tier))
    out += [("graph", tier, i, min(i + 700, g)) for i in range(0, g, 700)]
    g4 = len(graph4_cases(tier))
    step = 1500 if tier == "quick" else 6000
    out += [("graph4", tier, i, min(i + step, g4)) for i in range(0, g4, step)]
    return out


def run_shard(shard: Any) -> Dict[str, Any]:
    acc = Acc()
    kind, tier, lo, hi = shard
    if kind == "single":
        table = class_table()
        for nm, idx in single_cases()[lo:hi]:
            for trip in TRIPS:
                vals = arg_values()  # fresh objects per trip
                args = tuple(vals[i][1] for i in idx)
                kinds = tuple(vals[i][0] for i in idx)
                try:
                    exc = table[nm](*args)
                except Exception:
                    continue
                check(nm, kinds, exc, trip, acc, rp={"single": [nm, list(idx), trip]})
                if acc.evaluations % 4001 == 1:
                    acc.sample({"class": nm, "arg_kinds": list(kinds), "trip": trip})
    elif kind == "special":
        for trip in TRIPS:
            for nm, exc in special_instances():
                check(nm, ("special",), exc, trip, acc, rp={"special": [nm, trip]})
    elif kind == "graph4":
        for gi, case in enumerate(graph4_cases(tier)[lo:hi]):
            for trip in (("json-text", "py-dict") if tier == "quick" else ("json-text", "json-dict", "py-dict")):
                acc.count("graphs4_checked")
                check("graph", ("graph",), build_graph(case), trip, acc, chain=True, rp={"graph4": [lo + gi, tier, trip]})
            if gi % 2003 == 0:
                acc.sample({"graph4_case": {"causes": case[0], "contexts": case[1], "suppress": case[2]}})
    elif kind == "graph":
        for gi, case in enumerate(graph_cases(tier)[lo:hi]):
            for trip in ("json-text", "json-dict", "py-dict"):
                acc.count("graphs_checked")
                check("graph", ("graph",), build_graph(case), trip, acc, chain=True, rp={"graph": [lo + gi, tier, trip]})
            if gi % 331 == 0:
                acc.sample({"graph_case": {"causes": case[0], "contexts": case[1], "suppress": case[2]}})
    else:
        for ci, case in enumerate(chain_cases(tier)[lo:hi]):
            for trip in TRIPS:
                exc = build_chain(case)
                if case[0] == "linear" and case[3] is not None:
                    acc.count("cycles_cut")
                check("chain:" + repr(case), ("chain",), exc, trip, acc, chain=True, rp={"chain": [lo + ci, tier, trip]})
                if ci % 97 == 0 and trip == "json-text":
                    acc.sample({"chain_case": repr(case), "trip": trip})
        # falsy exception classes inside chains (truthiness tests in the serialiser)
        t = class_table()
        # value-equal twins in one chain: no cycle, every link must survive
        for tcls in ("EqHash", "EqNoHash"):
            for trip in TRIPS:
                root = t[tcls]("t", 3)
                root.__cause__ = t[tcls]("t", 3)
                root.__context__ = t[tcls]("t", 3)
                root.__cause__.__context__ = t[tcls]("t", 3)
                if lo == 0:
                    check(f"twins:{tcls}", ("chain",), root, trip, acc, chain=True, rp={"twins": [tcls, trip]})
        for fcls in ("FalsyBool", "FalsyLen", "EqNoHash", "EqHash"):
            for pos in ("root", "cause", "context"):
                for trip in TRIPS:
                    root = t["ValueError"]("r") if pos != "root" else t[fcls]("f")
                    if pos == "cause":
                        root.__cause__ = t[fcls]("f")
                    elif pos == "context":
                        root.__context__ = t[fcls]("f")
                    else:
                        root.__cause__ = t["Plain"]("c")
                    if lo == 0:
                        check(f"falsy:{fcls}@{pos}", ("chain",), root, trip, acc, chain=True, rp={"falsy": [fcls, pos, trip]})
    return acc.as_dict()


def replay(obj: Dict[str, Any]) -> int:
    acc = Acc()
    if "single" in obj:
        nm, idx, trip = obj["single"]
        vals = arg_values()
        exc = class_table()[nm](*[vals[i][1] for i in idx])
        check(nm, tuple(vals[i][0] for i in idx), exc, trip, acc)
    elif "special" in obj:
        nm, trip = obj["special"]
        check(nm, ("special",), dict(special_instances())[nm], trip, acc)
    elif "twins" in obj:
        tcls, trip = obj["twins"]
        t = class_table()
        root = t[tcls]("t", 3)
        root.__cause__ = t[tcls]("t", 3)
        root.__context__ = t[tcls]("t", 3)
        root.__cause__.__context__ = t[tcls]("t", 3)
        check(f"twins:{tcls}", ("chain",), root, trip, acc, chain=True)
    elif "graph4" in obj:
        gi, tier, trip = obj["graph4"]
        check("graph", ("graph",), build_graph(graph4_cases(tier)[gi]), trip, acc, chain=True)
    elif "graph" in obj:
        gi, tier, trip = obj["graph"]
        check("graph", ("graph",), build_graph(graph_cases(tier)[gi]), trip, acc, chain=True)
    elif "chain" in obj:
        ci, tier, trip = obj["chain"]
        case = chain_cases(tier)[ci]
        check("chain:" + repr(case), ("chain",), build_chain(case), trip, acc, chain=True)
    else:
        fcls, pos, trip = obj["falsy"]
        t = class_table()
        root = t["ValueError"]("r") if pos != "root" else t[fcls]("f")
        if pos == "cause":
            root.__cause__ = t[fcls]("f")
        elif pos == "context":
            root.__context__ = t[fcls]("f")
        else:
            root.__cause__ = t["Plain"]("c")
        check(f"falsy:{fcls}@{pos}", ("chain",), root, trip, acc, chain=True)
    for k, v in acc.violations.items():
        print("oracle:", k, "-", v["message"])
    return 1 if acc.violations else 0
