"""C04 - prefetch is bounded: at most A + P + 1 unfinished messages per worker (E1)."""
from __future__ import annotations

from typing import Any, Dict, List

from mc.common import Acc
from mc.recv_driver import replay as _replay
from mc.recv_driver import run_scenarios
from mc.recv_world import RecvWorld

META = {
    "kind": "graph",
    "engine": "E1 explicit-state exploration of Receiver.listen() on a hand-stepped event loop",
    "rule": (
        "backlog scenarios: the broker always has a next message (n = A+P+3 messages, every deliver is "
        "enabled whenever the worker asks), task bodies are gated so that they finish in any order "
        "(at most max_body completions per path where stated); all orderings of deliveries, completions "
        "and idle-poll timers, level-1 scenarios add two events in one loop iteration. Invariant at every "
        "TAKEN event: #taken - #finished <= A+P+1 (finished = the callback coroutine of the message has "
        "ended and no acknowledgement of it is still in flight). Extra families: acks that return a Task; a broker stream "
        "that raises between messages. Non-vacuity: the maximum observed must equal A+P+1 in every "
        "configuration. distinct_nontrivial = distinct (A,P,max unfinished) saturation outcomes + terminal logs."
        " Faults in a saturated worker: the first message of a backlog of A+P+4 suffers one fault of the fault-overlap alphabet (mc/fault_overlap.py: hook / ack / backend raising, backend failing once, body outcomes); the bound holds at every TAKEN event."
    ),
    "assumptions": [
        "asyncio semantics as implemented by BaseEventLoop (only clock/selector replaced)",
        "a message counts as taken when the broker's listen() generator passes its yield",
    ],
    "required_counters": ["wiring_cases", "scenarios", "saturated_configs"],
    "bounds": {
        "quick": {"A": [1, 2], "P": [0, 1, 2], "n": "A+P+3", "max_body": "2 for A+P>=4", "L1": "(A,P) in {(1,0),(1,1),(2,0),(2,1),(3,0)} with <=2 completions and n=A+P+4", "deep": "n=A+P+2+k after k<=3 completions for 4 configs"},
        "thorough": {"A": [1, 2, 3, 4], "P": [0, 1, 2, 3, 4], "n": "A+P+3", "max_body": "3 for A+P>=4", "L1": "(A,P) in {(1,0),(1,1),(2,0),(2,1),(1,2),(3,0),(3,1),(2,2)}, n=A+P+4", "deep": "n=A+P+5 after 3 completions, A in 1..3, P in 0..2"},
    },
}


def scenarios(tier: str) -> List[Dict[str, Any]]:
    out = []
    if tier == "quick":
        grid = [(a, p) for a in (1, 2) for p in (0, 1, 2)]
    else:
        grid = [(a, p) for a in (1, 2, 3, 4) for p in (0, 1, 2, 3, 4)]
    for a, p in grid:
        n = a + p + 3
        sc = {"A": a, "P": p, "N": None, "stream": "infinite", "stop": False, "level": 0,
              "msgs": [{} for _ in range(n)]}
        if a + p >= 4:
            sc["max_body"] = 2 if tier == "quick" else 3
        out.append(sc)
        # ackable + when_saved with a gated ack: the message stays unfinished until the ack completes
        if a + p <= 2:
            out.append({"A": a, "P": p, "N": None, "stream": "infinite", "stop": False, "level": 0, "max_body": 2,
                        "msgs": [{"ack": "async", "gates": ["ack"]} for _ in range(n)]})
    # ackable messages whose ack callable returns a Task that completes later (not a coroutine)
    for a, p in ((1, 0), (1, 1), (2, 0)):
        out.append({"A": a, "P": p, "N": None, "stream": "infinite", "stop": False, "level": 0, "max_body": 3,
                    "msgs": [{"ack": "future", "gates": ["ack"]} for _ in range(a + p + 3)]})
    # a broker whose listen() raises (connection lost) between messages: whatever the worker does about
    # it (the unchanged code stops), the bound must hold
    for a, p in ((1, 0), (1, 1), (2, 1)):
        for pos in (1, 2):
            msgs: List[Dict[str, Any]] = [{} for _ in range(a + p + 5)]
            msgs[pos] = {"kind": "stream_error"}
            msgs[pos + 2] = {"kind": "stream_error"}
            out.append({"A": a, "P": p, "N": None, "stream": "infinite", "stop": False, "level": 0, "max_body": 2, "msgs": msgs,
                        "no_saturation_required": True})
    # a fault in one of the running messages of a saturated worker with backlog (mc/fault_overlap.py): the
    # bound holds whatever a failing hook, ack, result backend or task does to that one message
    from mc import fault_overlap as fo

    for a, p in (((2, 0), (2, 1)) if tier == "quick" else ((2, 0), (2, 1), (3, 0), (3, 1), (2, 2))):
        for f in fo.faults(tier):
            if f[0] in ("stream", "junk") or (tier == "quick" and f[0] == "hook" and f[1][1] != "raise"):
                continue
            sc = fo.scenario(f, a=a, p=p, stop=False, gate_pre=False, backlog=a + p + 2)
            sc["max_body"] = 3
            sc["no_saturation_required"] = f[0] == "body" and f[1] == "timeout"
            out.append(sc)
    l1 = [(1, 0), (1, 1), (2, 0), (2, 1), (3, 0)] if tier == "quick" else [(1, 0), (1, 1), (2, 0), (2, 1), (1, 2), (3, 0), (3, 1), (2, 2)]
    for a, p in l1:
        # n = bound + 1 + completions: a surplus permit created by the max_body-th completion (or by two
        # completions in one loop iteration) still has a further backlog message to show itself on
        out.append({"A": a, "P": p, "N": None, "stream": "infinite", "stop": False, "level": 1, "max_body": 2,
                    "msgs": [{} for _ in range(a + p + 4)]})
    # longer backlogs at level 0: the bound after two and three completions in every order
    deep = [(1, 0, 3), (2, 0, 3), (1, 1, 2), (2, 1, 2)] if tier == "quick" else [(a, p, 3) for a in (1, 2, 3) for p in (0, 1, 2)]
    for a, p, k in deep:
        out.append({"A": a, "P": p, "N": None, "stream": "infinite", "stop": False, "level": 0, "max_body": k,
                    "msgs": [{} for _ in range(a + p + 2 + k)]})
    return out


def shards(tier: str, seed: int) -> List[Any]:
    return _shards(tier, seed) + [[{"wiring": "C04"}]]


def _shards(tier: str, seed: int) -> List[Any]:
    return [[s] for s in scenarios(tier)]


def _per(sc: Dict[str, Any], res: Any, acc: Acc) -> None:
    if sc.get("no_saturation_required"):
        return
    bound = sc["A"] + sc["P"] + 1
    mx = res.maxima.get("max_unfinished", 0)
    acc.maximum(f"unfinished_A{sc['A']}_P{sc['P']}", mx)
    acc.outcome(("saturation", sc["A"], sc["P"], mx))
    if mx == bound:
        acc.count("saturated_configs")
    elif mx < bound:
        acc.cap(f"scenario A={sc['A']} P={sc['P']} never saturated (max unfinished {mx} < {bound}): vacuous")


def run_shard(shard: List[Dict[str, Any]]) -> Dict[str, Any]:
    if shard and shard[0].get("wiring"):
        from mc.cli_wiring import check_worker_wiring

        acc = Acc()
        check_worker_wiring("C04", acc)
        return acc.as_dict()
    return run_scenarios("C04", shard, RecvWorld, per_scenario=_per).as_dict()


def replay(obj: Dict[str, Any]) -> int:
    return _replay(obj, RecvWorld)
