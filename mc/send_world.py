"""E1 world for the client side: concurrent AsyncKicker.kiq() calls on one broker.

sc = {
  'mws':   [{'pre_send': None|'sync'|'async'|'gated', 'post_send': same, 'replace': bool}, ...],
  'sends': [{'kick': 'ok'|'raise'|'gated'|'gated-raise'}, ...],
  'kicker': 'fresh' | 'shared' | 'task'   fresh: task.kicker() per send; shared: one long-lived kicker
                                           object used by all sends; task: task.kiq() directly
}
External events: ('send', k) starts send k (sends start in index order, at any point of the
others' progress); a gate per suspended 'gated' hook and per gated kick. Every hook and the
broker's kick() record (event, send index, middleware index, marks seen on the message).
The send a hook invocation belongs to is read from the message's first positional argument.
"""
from __future__ import annotations

import asyncio
from typing import Any, Dict, List, Tuple

from mc.vloop import World

_SCALAR = (bool, int, str, float, type(None))


def scalar_attrs(obj: Any, skip: Tuple[str, ...] = ()) -> Tuple[Any, ...]:
    """Plain-valued instance attributes (flags, counters, small containers of them): state an object
    under test may carry from one operation to the next. Part of the fingerprint, so that two
    histories are merged only when such state agrees as well."""
    out = []
    for k, v in sorted(vars(obj).items()):
        if k in skip:
            continue
        if isinstance(v, _SCALAR):
            out.append((k, v))
        elif isinstance(v, (list, tuple, set, frozenset)) and len(v) <= 16 and all(isinstance(x, _SCALAR) for x in v):
            out.append((k, tuple(sorted(v, key=repr)) if isinstance(v, (set, frozenset)) else tuple(v)))
        elif isinstance(v, dict) and len(v) <= 16 and all(isinstance(x, _SCALAR) and isinstance(y, _SCALAR) for x, y in v.items()):
            out.append((k, tuple(sorted(v.items(), key=repr))))
    return tuple(out)


class SendWorld(World):
    def __init__(self, sc: Dict[str, Any]) -> None:
        super().__init__()
        self.sc = sc
        self.activate()
        self.n = len(sc["sends"])
        self.started: List[int] = []
        self.done: Dict[int, Any] = {}
        self.per: Dict[int, List[Tuple[Any, ...]]] = {k: [] for k in range(self.n)}
        self.tasks: Dict[Any, Any] = {}
        self.checked = 0
        self.max_overlap = 0
        self._build()

    # ------------------------------------------------------------------ construction
    def _build(self) -> None:
        from taskiq.abc.broker import AsyncBroker
        from taskiq.abc.middleware import TaskiqMiddleware

        world = self

        class B(AsyncBroker):
            async def kick(self, message):  # noqa: ANN001
                tm = self.formatter.loads(message.message)
                k = tm.args[0]
                world.emit("KICK", k, tuple(sorted(x for x in tm.labels if x.startswith("mw"))))
                mode = world.sc["sends"][k]["kick"]
                if mode.startswith("gated"):
                    await world.gate(("kick", k))
                    world.emit("KICK_E", k)
                if mode.endswith("raise"):
                    raise RuntimeError("broker down")

            async def listen(self):  # pragma: no cover
                yield b""

        b = B()
        self.broker = b

        async def f(k, y):  # noqa: ANN001
            return None

        f.__module__ = "mc.send_world"
        self.task = b.register_task(f, task_name="send:f")
        for mi, mw in enumerate(self.sc["mws"]):
            methods = {}
            for hook in ("pre_send", "post_send"):
                mode = mw.get(hook)
                if mode is None:
                    continue
                methods[hook] = self._mk_hook(hook, mi, mode, bool(mw.get("replace")))
            from mc.recv_world import make_mw_class

            b.add_middlewares(make_mw_class(f"SMW{mi}", TaskiqMiddleware, methods, mw.get("inherit"))())
        self.shared = self.task.kicker().with_labels(shared="1") if self.sc.get("kicker") == "shared" else None

    def _mk_hook(self, hook: str, mi: int, mode: str, rep: bool) -> Any:
        world = self

        def enter(message: Any) -> int:
            k = message.args[0]
            world.emit(hook, k, mi, tuple(sorted(x for x in message.labels if x.startswith("mw"))))
            return k

        def leave(message: Any) -> Any:
            if hook == "pre_send":
                if rep:
                    return message.model_copy(update={"labels": {**message.labels, f"mw{mi}": str(mi)}})
                return message
            return None

        if mode == "sync":
            def h(self, message):  # noqa: ANN001
                enter(message)
                return leave(message)
        elif mode == "async":
            async def h(self, message):  # noqa: ANN001
                enter(message)
                return leave(message)
        else:
            async def h(self, message):  # noqa: ANN001
                k = enter(message)
                await world.gate(("hook", k, mi, hook))
                world.emit(hook + "_E", k, mi)
                return leave(message)
        h.__name__ = hook
        return h

    async def _send(self, k: int) -> None:
        from taskiq.exceptions import SendTaskError

        try:
            mode = self.sc.get("kicker", "fresh")
            if mode == "task":
                res = await self.task.kiq(k, "a")
            elif mode == "shared":
                res = await self.shared.kiq(k, "a")
            else:
                res = await self.task.kicker().kiq(k, "a")
        except SendTaskError as exc:
            self.emit("DONE", k, "SendTaskError", type(exc.__cause__).__name__)
        except BaseException as exc:
            self.emit("DONE", k, type(exc).__name__, str(exc)[:80])
            if isinstance(exc, asyncio.CancelledError):
                raise
        else:
            self.emit("DONE", k, "ok", type(res).__name__)

    # ------------------------------------------------------------------ events
    def extra_enabled(self) -> List[Any]:
        nxt = len(self.started)
        return [("send", nxt)] if nxt < self.n else []

    def fire_extra(self, ev: Any) -> None:
        k = ev[1]
        self.started.append(k)
        self.max_overlap = max(self.max_overlap, len([x for x in self.started if x not in self.done]))
        self.emit("SEND", k)
        t = self.loop.create_task(self._send(k))
        self.tasks[t] = ("send", k)

    def task_name(self, task: Any) -> Any:
        return self.tasks.get(task, NotImplemented)

    def terminal(self) -> bool:
        return len(self.done) == self.n

    # ------------------------------------------------------------------ oracle
    def reference(self, k: int) -> List[Tuple[Any, ...]]:
        seq: List[Tuple[Any, ...]] = [("SEND",)]
        marks: List[str] = []
        mws = self.sc["mws"]
        for mi, mw in enumerate(mws):
            if mw.get("pre_send"):
                seq.append(("pre_send", mi, tuple(sorted(marks))))
                if mw["pre_send"] == "gated":
                    seq.append(("pre_send_E", mi))
                if mw.get("replace"):
                    marks.append(f"mw{mi}")
        allm = tuple(sorted(marks))
        seq.append(("KICK", allm))
        kick = self.sc["sends"][k]["kick"]
        if kick.startswith("gated"):
            seq.append(("KICK_E",))
        if kick.endswith("raise"):
            seq.append(("DONE", "SendTaskError", "RuntimeError"))
            return seq
        for mi, mw in enumerate(mws):
            if mw.get("post_send"):
                seq.append(("post_send", mi, allm))
                if mw["post_send"] == "gated":
                    seq.append(("post_send_E", mi))
        seq.append(("DONE", "ok", "AsyncTaskiqTask"))
        return seq

    def on_event(self, ev: Tuple[Any, ...]) -> None:
        k = ev[1]
        self.per[k].append((ev[0],) + tuple(ev[2:]))
        ref = self.reference(k)
        got = self.per[k]
        if got != ref[: len(got)] and not getattr(self, "_flagged_%d" % k, False):
            setattr(self, "_flagged_%d" % k, True)
            self.flag(
                "C10:concurrent-send-sequence",
                f"send {k} of {self.n} concurrent sends: observed {got} is not a prefix of the reference {ref} "
                f"(all events so far: {self.log})",
            )
        if ev[0] == "DONE":
            self.done[k] = ev[2]
            self.checked += 1
            if got != ref and not getattr(self, "_flagged_%d" % k, False):
                setattr(self, "_flagged_%d" % k, True)
                self.flag("C10:concurrent-send-sequence", f"send {k}: observed {got} != reference {ref} (all events: {self.log})")

    def check_terminal(self) -> None:
        for k in range(self.n):
            if k not in self.done:
                self.flag("C10:concurrent-send-never-finished", f"send {k} never finished: {self.per[k]}")

    def check_quiescent(self) -> None:
        # a send that has started makes progress: it is either finished or waiting for one of the
        # harness gates (a suspended hook or the broker)
        if not self.enabled() and len(self.done) < self.n:
            self.flag("C10:concurrent-send-stuck", f"sends {[k for k in self.started if k not in self.done]} are stuck: {self.log}")

    def monitor_state(self) -> Any:
        return (tuple((k, tuple(v)) for k, v in self.per.items()), tuple(self.started),
                scalar_attrs(self.broker), scalar_attrs(self.shared) if self.shared is not None else None)

    def metrics(self) -> Dict[str, int]:
        return {"checked": self.checked, "max_overlap": self.max_overlap}

    def outcome(self) -> Any:
        return tuple((k, tuple(v)) for k, v in self.per.items())
