"""Model-checking machinery for taskiq (see /verif/DESIGN.md)."""
