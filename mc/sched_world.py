"""World for the scheduler loop: real run_scheduler_loop() on a VLoop whose clock is the wall clock.

Scenario:
  start_us      offset of the start instant inside the base minute (microseconds)
  horizon_min   number of virtual minutes to run
  sources       list of source specs: {'kind': 'list'|'label', 'schedules': [sched specs],
                                       'fail_polls': [poll numbers whose get_schedules raises],
                                       'list_latency_us': duration of get_schedules(),
                                       'edits': [[poll number, 'add'|'remove', sched spec or tag]]}
  sched spec    {'tag': str, 'cron': expr} | {'tag': str, 'at_us': offset from base minute in microseconds}
  latency_us    duration of broker.kick()
  fail_kicks    list of kick call numbers (0-based, in call order) that raise
"""
from __future__ import annotations

import asyncio
import datetime as dt
from typing import Any, Dict, List, Optional, Tuple

from mc import clock
from mc.vloop import HarnessError, World

UTC = dt.timezone.utc
BASE = dt.datetime(2024, 5, 6, 12, 30, tzinfo=UTC)  # a Monday, 12:30:00 UTC
MIN_US = 60_000_000


def _now_from_running_loop() -> dt.datetime:
    from asyncio import events

    loop = events._get_running_loop()
    if loop is None or not hasattr(loop, "wall_start"):
        raise HarnessError("wall clock read outside a scheduler world")
    return loop.wall_start + dt.timedelta(microseconds=loop._vt_us)


class SchedWorld(World):
    def __init__(self, sc: Dict[str, Any]) -> None:
        super().__init__()
        self.sc = sc
        self.loop.wall_start = BASE + dt.timedelta(microseconds=sc.get("start_us", 0))  # type: ignore[attr-defined]
        self.horizon_us = sc.get("horizon_min", 3) * MIN_US
        if sc.get("local_offset_min"):
            self.loop.local_offset = dt.timedelta(minutes=sc["local_offset_min"])  # type: ignore[attr-defined]
        clock.install(_now_from_running_loop)
        self.activate()
        self.polls: List[Tuple[int, int, int]] = []  # (source, call number, t_us absolute from base)
        self.kicks: List[Dict[str, Any]] = []
        self.post_sends: List[Tuple[str, int]] = []
        self.kick_calls = 0
        self._build()
        self.loop.run_to_quiescence()
        self.after_step()

    def _uuid_counter(self) -> Any:
        """Counter of the world that is currently running (several worlds may be alive)."""
        from asyncio import events

        loop = events._get_running_loop()
        if not hasattr(loop, "uuid_counter"):
            import itertools

            loop.uuid_counter = itertools.count()  # type: ignore[attr-defined]
        return loop.uuid_counter  # type: ignore[attr-defined]

    # absolute time in microseconds since BASE
    def t_abs(self) -> int:
        return self.sc.get("start_us", 0) + self.loop._vt_us

    def _mk_sched(self, spec: Dict[str, Any]) -> Any:
        from taskiq.scheduler.scheduled_task import ScheduledTask

        kw: Dict[str, Any] = {}
        if "cron" in spec:
            kw["cron"] = spec["cron"]
        if "at_us" in spec:  # a schedule may carry both: the cron expression then decides
            t = BASE + dt.timedelta(microseconds=spec["at_us"])
            kw["time"] = t if spec.get("aware", True) else t.replace(tzinfo=None)
        return ScheduledTask(task_name="sched:task", labels={"tag": spec["tag"]}, args=[spec["tag"]], kwargs={},
                             schedule_id="sid-" + spec["tag"], **kw)

    def _build(self) -> None:
        from taskiq.abc.broker import AsyncBroker
        from taskiq.abc.schedule_source import ScheduleSource
        from taskiq.cli.scheduler.run import run_scheduler_loop
        from taskiq.schedule_sources import LabelScheduleSource
        from taskiq.scheduler.scheduler import TaskiqScheduler

        world = self
        sc = self.sc

        class B(AsyncBroker):
            async def kick(self, message: Any) -> None:
                n = world.kick_calls
                world.kick_calls += 1
                tm = self.formatter.loads(message.message)
                tag = tm.args[0] if tm.args else tm.labels.get("tag")
                rec = {"n": n, "tag": tag, "t": world.t_abs(), "sid": tm.labels.get("schedule_id"), "ok": None,
                       "task": tm.task_name, "labels": dict(tm.labels)}
                world.kicks.append(rec)
                world.emit("KICK", tag, world.t_abs())
                lat = sc.get("latency_us", 0)
                if lat:
                    await asyncio.sleep(lat / 1e6)
                if n in sc.get("fail_kicks", ()):
                    rec["ok"] = False
                    world.emit("KICK_FAIL", tag, world.t_abs())
                    raise RuntimeError("broker unavailable")
                rec["ok"] = True
                world.emit("KICK_OK", tag, world.t_abs())

            async def listen(self):  # pragma: no cover
                yield b""

        broker = B()
        self.broker = broker
        # ids are the only randomness in the scheduler path: script them per world so that
        # two replays of one schedule are identical (LabelScheduleSource draws a fresh
        # schedule_id per listed entry and poll, the kicker a task id per send)
        import itertools
        import types

        import taskiq.scheduler.scheduled_task.v2 as _v2

        ids = itertools.count()
        broker.id_generator = lambda: f"task-{next(ids)}"

        class _U:
            def __init__(self, n: int) -> None:
                self.hex = f"sched{n:08d}"

        _v2.uuid = types.SimpleNamespace(uuid4=lambda: _U(next(world._uuid_counter())))

        class ListSource(ScheduleSource):
            def __init__(self, idx: int, spec: Dict[str, Any]) -> None:
                self.idx = idx
                self.spec = spec
                self.items: List[Any] = [world._mk_sched(s) for s in spec.get("schedules", [])]
                self.calls = 0

            async def get_schedules(self) -> List[Any]:
                n = self.calls
                self.calls += 1
                world.polls.append((self.idx, n, world.t_abs()))
                world.emit("POLL", self.idx, n, world.t_abs())
                if self.spec.get("list_latency_us"):
                    await asyncio.sleep(self.spec["list_latency_us"] / 1e6)
                    world.emit("POLL_DONE", self.idx, n, world.t_abs())
                for (pn, op, what) in self.spec.get("edits", []):
                    if pn == n:
                        if op == "add":
                            self.items.append(world._mk_sched(what))
                        else:
                            self.items = [s for s in self.items if s.labels.get("tag") != what]
                if n in self.spec.get("fail_polls", ()):
                    world.emit("POLL_FAIL", self.idx, n)
                    raise RuntimeError("source unavailable")
                return list(self.items)

            def post_send(self, task: Any) -> None:
                world.post_sends.append((task.labels.get("tag"), world.t_abs()))
                world.emit("POST_SEND", task.labels.get("tag"), world.t_abs())
                if task.time is not None and task.cron is None:
                    self.items = [s for s in self.items if s.schedule_id != task.schedule_id]

        class RecLabelSource(LabelScheduleSource):
            idx = -1
            calls = 0

            async def get_schedules(self) -> List[Any]:
                n = self.calls
                self.calls += 1
                world.polls.append((self.idx, n, world.t_abs()))
                world.emit("POLL", self.idx, n, world.t_abs())
                return await LabelScheduleSource.get_schedules(self)

            def post_send(self, task: Any) -> None:
                world.post_sends.append((task.args[0] if task.args else None, world.t_abs()))
                world.emit("POST_SEND", task.args[0] if task.args else None, world.t_abs())
                return LabelScheduleSource.post_send(self, task)

        sources: List[Any] = []
        async def sched_task(tag):  # noqa: ANN001
            return tag
        sched_task.__module__ = "mc.sched_world"
        broker.register_task(sched_task, task_name="sched:task")
        for i, sp in enumerate(sc.get("sources", [])):
            if sp.get("kind", "list") == "list":
                sources.append(ListSource(i, sp))
            else:
                entries = []
                for s in sp.get("schedules", []):
                    e: Dict[str, Any] = {"args": [s["tag"]]}
                    if "cron" in s:
                        e["cron"] = s["cron"]
                    if "at_us" in s:
                        t = BASE + dt.timedelta(microseconds=s["at_us"])
                        e["time"] = t
                    entries.append(e)

                async def lt(tag):  # noqa: ANN001
                    return tag
                lt.__module__ = "mc.sched_world"
                broker.register_task(lt, task_name=f"label:task{i}", schedule=entries)
                src = RecLabelSource(broker)
                src.idx = i
                sources.append(src)
        self.sources = sources
        self.scheduler = TaskiqScheduler(broker, sources)
        entry = sc.get("entry", "loop")
        if entry == "api":
            from taskiq.api.scheduler import run_scheduler_task

            self.main = self.loop.create_task(run_scheduler_task(self.scheduler, run_startup=True))
        elif entry == "cli":
            from taskiq.cli.scheduler.args import SchedulerArgs
            from taskiq.cli.scheduler.run import run_scheduler

            args = SchedulerArgs(scheduler=self.scheduler, modules=[], configure_logging=False, skip_first_run=False)
            self.main = self.loop.create_task(run_scheduler(args))
        else:
            self.main = self.loop.create_task(run_scheduler_loop(self.scheduler))

    def enabled(self) -> List[Any]:
        timers = self.loop.pending_timers()
        if not timers:
            return []
        first = round(timers[0]._when * 1_000_000)
        if first > self.horizon_us:
            return []
        return super().enabled()

    def terminal(self) -> bool:
        return False

    def monitor_state(self) -> Any:
        return (self.t_abs(), tuple(self.log))

    def outcome(self) -> Any:
        return tuple(e for e in self.log if e[0] != "TIMER")

    def extra_teardown(self) -> None:
        pass


def install_import_name() -> None:
    import sys
    import types

    sys.modules.setdefault("mc.sched_world", sys.modules[__name__])
