"""World for the worker side: real Receiver.listen() on a VLoop with a scripted broker.

Scenario (JSON-able dict):
  A, P, N, W          max_async_tasks / max_prefetch / max_tasks_to_execute / wait_tasks_timeout
  ack_type            'when_received' | 'when_executed' | 'when_saved'
  propagate, validate booleans
  stream              'infinite' | 'finite'
  stop                bool: the stop event is an enabled choice
  msgs                list of message specs (see MSG_DEFAULT)
  mws                 list of middleware specs {hooks: {name: 'sync'|'async'|'gated'}, fail: [names]}
  probe               int: number of never-finishing probe messages appended after msgs (C03)
"""
from __future__ import annotations

import asyncio
import concurrent.futures as cf
import contextvars
from typing import Any, AsyncGenerator, Dict, List, Optional, Tuple, Union

from mc.vloop import HarnessError, World

# index of the delivery whose async task function last started in the current asyncio task: tells two
# deliveries that carry the same task id (a redelivery overlapping the first execution) apart
_CUR_DELIVERY: contextvars.ContextVar = contextvars.ContextVar("mc_cur_delivery", default=None)

MSG_DEFAULT = {
    "kind": "valid",  # valid | malformed | unknown
    "flavour": "async",  # async | sync
    "outcome": "return",  # return | raise | noresult | never
    "value": None,
    "exc": "ValueError",
    "timeout": None,  # timeout label in seconds
    "ack": None,  # None | 'sync' | 'async'
    "gates": [],  # subset of ['save', 'ack']
    "save_fails": False,
    "body": "gated",  # gated | immediate
    "unwind": None,  # 'gated': on cancellation the body awaits a gate before it finishes (slow clean-up)
    "labels": {},
    "ack_fails": None,  # None | 'raise' | 'cancel' | 'timeout': the ack callable fails (after its gate, if gated)
    "exc_shared": False,  # raise one exception *object* shared by all messages of the world
}

EXC_TABLE: Dict[str, Any] = {}


def _exc_table() -> Dict[str, Any]:
    if not EXC_TABLE:
        class CustomError(Exception):
            pass

        class CustomBase(BaseException):
            pass

        EXC_TABLE.update(
            {
                "ValueError": ValueError,
                "KeyError": KeyError,
                "CustomError": CustomError,
                "CustomBase": CustomBase,
                "KeyboardInterrupt": KeyboardInterrupt,
                "SystemExit": SystemExit,
                "GeneratorExit": GeneratorExit,
                "CancelledError": asyncio.CancelledError,
                "TimeoutError": TimeoutError,
            },
        )
    return EXC_TABLE


class PlainThing:
    """A plain class used as a parameter annotation (pydantic cannot build a schema for it)."""

    def __init__(self, pos: int = 0) -> None:
        self.pos = pos


def msg_spec(**kw: Any) -> Dict[str, Any]:
    d = dict(MSG_DEFAULT)
    d.update(kw)
    return d


def fault_exc(kind: Any, what: str) -> BaseException:
    """Exception object for an injected fault: True/'raise' -> RuntimeError, 'cancel' -> CancelledError
    (e.g. an awaited connection future that was cancelled), 'timeout' -> TimeoutError."""
    if kind == "cancel":
        return asyncio.CancelledError(what)
    if kind == "timeout":
        return TimeoutError(what)
    return RuntimeError(what)


def make_mw_class(name: str, base: Any, methods: Dict[str, Any], inherit: Any = None) -> Any:
    """Middleware class with the given hook methods. inherit: None - defined on the class itself;
    'base' - all hooks on an intermediate class, the instantiated class is an empty subclass of it;
    'split' - alternate hooks on the intermediate class and on the leaf; 'mixin' - hooks supplied
    by a mixin listed before the base. A hook counts as overridden however the class came by it."""
    if not inherit:
        return type(name, (base,), dict(methods))
    if inherit == "base":
        mid = type(name + "Base", (base,), dict(methods))
        return type(name, (mid,), {})
    if inherit == "split":
        names = sorted(methods)
        mid = type(name + "Base", (base,), {k: methods[k] for k in names[::2]})
        return type(name, (mid,), {k: methods[k] for k in names[1::2]})
    if inherit == "mixin":
        mx = type(name + "Mixin", (object,), dict(methods))
        return type(name, (mx, base), {})
    raise ValueError(inherit)


def _tick() -> None:
    """Harness clock tick (no effect on the code under test)."""


def _virtual_time() -> float:
    from asyncio import events

    loop = events._get_running_loop()
    return loop.time() if loop is not None else 0.0


_ACTIVE_WORLD: Any = None


def t_sync_global(i):  # noqa: ANN001, ANN201
    """Module-level sync task (importable by name, so a process pool can pickle it); it dispatches to
    the world that is currently being stepped."""
    w = _ACTIVE_WORLD
    w.emit("START", i)
    w.executor.block(i)
    return w._finish_body(i, w._NoResultError_)


class _Abort(BaseException):
    """Unwinds a harness thread whose world is being torn down."""


class _Th:
    def __init__(self) -> None:
        import threading

        self.sem = threading.Semaphore(0)
        self.state = "running"  # running | blocked | finished
        self.result: Any = None
        self.abort = False
        self.thread: Any = None


class FakeExecutor(cf.Executor):
    """submit() returns a Future that only the explorer completes.

    Default mode: no threads; the submitted callable runs atomically when the explorer fires
    ('exec', i). Mode 'threads' (scenario key executor='threads'): the callable runs on a real
    thread, one thread at a time under a strict baton hand-off - ('exec_start', i) lets it run
    until the task function blocks inside its body, ('exec', i) lets it finish - so two sync
    executions really overlap (both are inside their function at once) while every step stays
    an explorer decision."""

    def __init__(self, world: "RecvWorld") -> None:
        import threading

        self.world = world
        self.pending: Dict[int, Tuple[cf.Future, Any, Any, Any]] = {}
        self.threads: Dict[int, _Th] = {}
        self.main_sem = threading.Semaphore(0)
        self.threaded = world.sc.get("executor") == "threads"
        # 'pickle': behaves like a process pool in one respect - the callable and its arguments cross a pickle
        # boundary before they run; what cannot be pickled fails the future, as ProcessPoolExecutor does
        self.pickling = world.sc.get("executor") == "pickle"

    def submit(self, fn, /, *args, **kwargs):  # type: ignore[override]
        f: cf.Future = cf.Future()
        # args = (target, message_args, kwargs) of taskiq.receiver.receiver._run_sync
        idx = -1
        for a in args:
            if isinstance(a, (list, tuple)) and a and isinstance(a[0], int):
                idx = a[0]
                break
        self.pending[idx] = (f, fn, args, kwargs)
        self.world.emit("SUBMIT", idx)
        if self.world.spec(idx)["body"] == "immediate":
            self.complete(idx)
        return f

    def enabled(self) -> List[Any]:
        out = []
        for idx, (f, _, _, _) in sorted(self.pending.items()):
            if f.done():
                continue
            th = self.threads.get(idx)
            if self.threaded and th is None:
                out.append(("exec_start", idx))
            elif self.world.spec(idx)["outcome"] != "never" and (th is None or th.state == "blocked"):
                out.append(("exec", idx))
        return out

    # ---- default mode --------------------------------------------------------------
    def complete(self, idx: int) -> None:
        if idx in self.threads:
            self._resume(idx)
            return
        f, fn, args, kwargs = self.pending[idx]
        if not f.set_running_or_notify_cancel():
            return
        if self.pickling:
            import pickle

            try:
                fn, args, kwargs = pickle.loads(pickle.dumps((fn, args, kwargs)))
            except BaseException as exc:
                self.world.emit("PICKLE_FAILED", idx, type(exc).__name__)
                f.set_exception(exc)
                return
        try:
            r = fn(*args, **kwargs)
        except BaseException as exc:  # what a real pool worker does
            f.set_exception(exc)
        else:
            f.set_result(r)

    # ---- threads mode ----------------------------------------------------------------
    def start(self, idx: int) -> None:
        import threading

        f, fn, args, kwargs = self.pending[idx]
        if not f.set_running_or_notify_cancel():
            return
        th = _Th()
        self.threads[idx] = th

        def run() -> None:
            try:
                th.result = ("ok", fn(*args, **kwargs))
            except _Abort:
                th.result = ("abort", None)
            except BaseException as exc:  # what a real pool worker does
                th.result = ("exc", exc)
            th.state = "finished"
            self.main_sem.release()

        th.thread = threading.Thread(target=run, daemon=True, name=f"harness-sync-{idx}")
        th.thread.start()
        self.main_sem.acquire()
        self._deliver(idx)

    def block(self, idx: int) -> None:
        """Called on the worker thread from inside the task function: wait for ('exec', idx)."""
        th = self.threads.get(idx)
        if th is None:
            return  # default mode: the body runs atomically
        th.state = "blocked"
        self.main_sem.release()
        th.sem.acquire()
        th.state = "running"
        if th.abort:
            raise _Abort()

    def _resume(self, idx: int) -> None:
        th = self.threads[idx]
        if th.state != "blocked":
            raise HarnessError(f"sync execution {idx} is not blocked")
        th.sem.release()
        self.main_sem.acquire()
        self._deliver(idx)

    def _deliver(self, idx: int) -> None:
        th = self.threads[idx]
        if th.state != "finished":
            return
        th.thread.join()
        f = self.pending[idx][0]
        kind, val = th.result
        if kind == "ok":
            f.set_result(val)
        elif kind == "exc":
            f.set_exception(val)

    def abort_all(self) -> None:
        for th in self.threads.values():
            if th.state == "blocked":
                th.abort = True
                th.sem.release()
                self.main_sem.acquire()
                th.thread.join()


class RecvWorld(World):
    # run_task() reads time() only to fill TaskiqResult.execution_time
    ignore_locals = frozenset({"start_time", "execution_time"})

    def __init__(self, sc: Dict[str, Any]) -> None:
        super().__init__()
        self.sc = sc
        self.activate()
        import taskiq.receiver.receiver as _rr

        _rr.time = _virtual_time  # harness-side: execution_time becomes deterministic
        self._build()
        self.loop.run_to_quiescence()
        self.after_step()

    def activate(self) -> None:
        global _ACTIVE_WORLD
        super().activate()
        _ACTIVE_WORLD = self

    # ------------------------------------------------------------------ construction
    def spec(self, i: int) -> Dict[str, Any]:
        return self.msgs[i]

    def _build(self) -> None:
        from taskiq.abc.broker import AsyncBroker
        from taskiq.abc.middleware import TaskiqMiddleware
        from taskiq.abc.result_backend import AsyncResultBackend
        from taskiq.acks import AckableMessage, AcknowledgeType
        from taskiq.exceptions import NoResultError
        from taskiq.message import TaskiqMessage
        from taskiq.receiver import Receiver

        world = self
        sc = self.sc
        self.msgs: List[Dict[str, Any]] = [msg_spec(**m) for m in sc.get("msgs", [])]
        self._shared_ids = any(m.get("same_id_as") is not None for m in self.msgs)
        for _ in range(sc.get("probe", 0)):
            self.msgs.append(msg_spec(outcome="never", probe=True))
        n = len(self.msgs)
        self.n = n
        self.A_cfg = sc.get("A")  # what the Receiver is given; None, 0 and negative values all mean "no limit"
        self.A = self.A_cfg if (self.A_cfg is not None and self.A_cfg > 0) else None
        self.P = sc.get("P", 0)
        self.N = sc.get("N")
        self.W = sc.get("W")
        self.never: List[asyncio.Future] = []
        self.next_k = 0
        self.results: Dict[str, Any] = {}
        self.saved: List[Tuple[int, Any]] = []
        self.kicked: List[Any] = []
        self.ret = False
        self.stop_requested = False
        self.t_stop: Optional[int] = None
        self.t_sd: Optional[int] = None  # instant shutdown began (stop / N-th taken / end of stream)
        self.sd_cause: Optional[str] = None
        self.t_last_finish: Optional[int] = None
        self.bodies_fired = 0
        self.times: List[int] = []
        self.taken: List[int] = []
        self.started: List[int] = []
        self.cb_open: List[int] = []
        self.cb_done: List[int] = []
        self.per: Dict[int, List[Tuple[Any, ...]]] = {i: [] for i in range(n)}
        self.max_inflight = 0
        self.max_unfinished = 0
        self.body_open: List[int] = []
        self.expected_labels: Dict[int, Dict[str, Any]] = {}
        for t_us in sc.get("ticks", []):
            # harness timers: instants at which untimed events may happen between the
            # deadlines of the code's own timers
            self.loop.call_at(t_us / 1_000_000, _tick)

        class ScriptedBroker(AsyncBroker):
            async def kick(self, message: Any) -> None:
                world.kicked.append(message)
                world.emit("KICK", message.task_id)

            async def listen(self) -> AsyncGenerator[Union[bytes, AckableMessage], None]:
                # the position lives in the world: a worker that calls listen() again after a
                # broker error continues with the next message
                while world.next_k < n:
                    k = world.next_k
                    await world.gate(("deliver", k))
                    world.next_k = k + 1
                    if world.msgs[k]["kind"] == "stream_error":
                        world.emit("STREAM_ERROR", k)
                        raise ConnectionError("broker connection lost")
                    world.emit("TAKEN", k)
                    yield world.wire[k]
                if sc.get("stream", "infinite") == "infinite":
                    fut = world.loop.create_future()
                    world.never.append(fut)
                    await fut
                world.emit("EOS")

        class RecBackend(AsyncResultBackend):  # type: ignore[type-arg]
            async def set_result(self, task_id: str, result: Any) -> None:
                i = world.idx_of(task_id)
                world.saved.append((i, result))
                world.emit("SAVE_B", i, world.res_summary(result))
                if "save" in world.msgs[i]["gates"]:
                    await world.gate(("save", i))
                sf = world.msgs[i]["save_fails"]
                if sf == "once":
                    sf = True if sum(1 for (k, _) in world.saved if k == i) == 1 else False
                if sf:
                    world.emit("SAVE_F", i)
                    raise fault_exc(sf, "result backend is down")
                world.results[task_id] = result
                world.emit("SAVE_E", i)

            async def is_result_ready(self, task_id: str) -> bool:
                return task_id in world.results

            async def get_result(self, task_id: str, with_logs: bool = False) -> Any:
                return world.results[task_id]

        broker = ScriptedBroker()
        broker.result_backend = RecBackend()
        self.broker = broker
        self._install_tasks(broker, NoResultError)
        self._install_middlewares(broker, TaskiqMiddleware)

        class RecReceiver(Receiver):
            async def callback(self, *args: Any, **kwargs: Any) -> None:  # type: ignore[override]
                # observe begin/end of the processing of one message; arguments are forwarded
                # exactly as the runner passed them (defaults stay those of the real method)
                message = args[0] if args else kwargs["message"]
                i = world.msg_index(message)
                world.emit("CB_B", i)
                try:
                    await Receiver.callback(self, *args, **kwargs)
                finally:
                    world.emit("CB_E", i)

        # wire messages
        self.wire: List[Any] = []
        self._wire_ids: Dict[int, List[int]] = {}  # id(payload object) -> indices (the empty bytes object is a singleton)
        for i, m in enumerate(self.msgs):
            if m["kind"] == "stream_error":
                self.wire.append(None)
                continue
            if m["kind"] == "malformed":
                payload = m.get("payload")
                if payload == "empty":
                    data = bytes()  # the empty bytes object is a singleton in CPython
                elif payload == "sentinel-lookalike":
                    data = bytes([45, 49])  # equal to b"-1" but a different object
                else:
                    data = b"\xff{not json %d" % i
            else:
                labels = dict(m.get("labels") or {})
                if m["timeout"] is not None:
                    labels["timeout"] = m["timeout"]
                labels_types = None
                typed = m.get("typed")
                if typed:
                    # what a kicker sends: labels prepared as text plus their types. 'partial': the types
                    # were computed before a client-side middleware stamped further labels (trace id,
                    # default timeout), which therefore travel un-typed
                    from taskiq.labels import prepare_label

                    if typed == "partial":
                        labels.setdefault("trace", f"t-{i}")
                    self.expected_labels[i] = dict(labels)
                    prepared: Dict[str, Any] = {}
                    labels_types = {}
                    for lk, lv in labels.items():
                        if typed == "partial" and lk in ("timeout", "trace"):
                            prepared[lk] = lv
                            continue
                        prepared[lk], labels_types[lk] = prepare_label(lv)
                    labels = prepared
                tm = TaskiqMessage(
                    task_id=f"m{m['same_id_as']}" if m.get("same_id_as") is not None else f"m{i}",
                    task_name=("no.such:task" if m["kind"] == "unknown" else self.task_name_for(i)),
                    labels=labels,
                    labels_types=labels_types,
                    args=[i],
                    kwargs={"cur": {"pos": i}, "n": str(i)} if m.get("task_kind") == "annot" else dict(m.get("kw") or {}),
                )
                data = broker.formatter.dumps(tm).message
            if m["ack"] is None:
                obj: Any = data
            else:
                obj = AckableMessage(data=data, ack=self._make_ack(i, m["ack"]))
            self.wire.append(obj)
            self._wire_ids.setdefault(id(obj), []).append(i)
        self._wire_keep = list(self.wire)

        self.executor = FakeExecutor(self)
        ack = sc.get("ack_type")

        def ack_value() -> Any:
            """The acknowledge type as the application passes it: the enum member, or (AcknowledgeType being
            a str enum) the plain string / a str subclass read from a configuration file."""
            form = sc.get("ack_type_form", "enum")
            if not ack:
                return None
            if form == "str":
                return str(ack)
            if form == "strsub":
                return type("ConfigStr", (str,), {})(ack)
            return AcknowledgeType(ack)

        self.receiver = RecReceiver(
            broker,
            executor=self.executor,
            validate_params=sc.get("validate", True),
            max_async_tasks=self.A_cfg,
            max_prefetch=self.P,
            propagate_exceptions=sc.get("propagate", True),
            run_startup=False,
            ack_type=ack_value(),
            on_exit=lambda r: world._on_ret(),
            max_tasks_to_execute=self.N,
            wait_tasks_timeout=self.W,
        )
        self.finish_event = asyncio.Event()
        if sc.get("entry") == "api":
            # the programmatic entry point: taskiq.api.run_receiver_task builds the receiver itself and
            # restarts listening after a broker error (its own thread pool is real: no sync tasks here;
            # its stop event is internal: no stop request, no N / W)
            from taskiq.api.receiver import run_receiver_task

            self.listen_task = self.loop.create_task(
                run_receiver_task(
                    broker,
                    receiver_cls=RecReceiver,
                    validate_params=sc.get("validate", True),
                    max_async_tasks=self.A if self.A is not None else 100,
                    max_prefetch=self.P,
                    propagate_exceptions=sc.get("propagate", True),
                    ack_time=ack_value(),
                ),
            )
            return
        self.listen_task = self.loop.create_task(self.receiver.listen(self.finish_event))

    _shared_exc: Any = None

    def relaxed(self, i: int) -> bool:
        """Fault-overlap scenarios (mc/fault_overlap.py): message X suffers a fault that lies outside the
        alphabet the property under check quantifies over (sc['relax_x']). X's own completeness
        obligations are then not demanded - its safety obligations, every obligation about the other
        message and every global one are."""
        x = self.sc.get("x")
        return bool(self.sc.get("relax_x")) and (x == i or (isinstance(x, (list, tuple)) and i in x))

    def task_name_for(self, i: int) -> str:
        if self.sc.get("reregister"):
            return "t_swap"
        if self.msgs[i].get("task_kind") == "annot":
            return "t_annot"
        if self.msgs[i]["flavour"] == "sync" and self.sc.get("executor") == "pickle":
            return "t_sync_g"
        return "t_sync" if self.msgs[i]["flavour"] == "sync" else "t_async"

    def _finish_body(self, i: int, NoResultError: Any) -> Any:
        m = self.msgs[i]
        o = m["outcome"]
        if o == "return":
            self.emit("END", i, "return")
            return m["value"]
        if o == "raise":
            self.emit("END", i, "raise:" + m["exc"])
            if m.get("exc_shared"):
                # e.g. two waiters of one failed future: both executions raise the very same object
                if self._shared_exc is None:
                    self._shared_exc = _exc_table()[m["exc"]]("boom", "shared")
                raise self._shared_exc
            raise _exc_table()[m["exc"]]("boom", i)
        if o == "noresult":
            self.emit("END", i, "noresult")
            raise NoResultError()
        raise HarnessError(f"body of never-ending message {i} finished")

    def _install_tasks(self, broker: Any, NoResultError: Any) -> None:
        world = self

        async def t_async(i):  # noqa: ANN001 - un-annotated on purpose
            _CUR_DELIVERY.set(i)
            world.emit("START", i)
            m = world.msgs[i]
            try:
                if m["outcome"] == "never":
                    fut = world.loop.create_future()
                    world.never.append(fut)
                    await fut
                elif m["body"] == "gated":
                    await world.gate(("body", i))
            except BaseException as exc:
                if m.get("unwind") == "gated" and not world.closed:
                    world.emit("UNWIND", i)
                    try:
                        await world.gate(("unwind", i))
                    except BaseException:
                        pass
                world.emit("END", i, "cancelled:" + type(exc).__name__)
                raise
            return world._finish_body(i, NoResultError)

        def t_sync(i):  # noqa: ANN001
            world.emit("START", i)
            world.executor.block(i)  # threads mode: stay inside the function until ('exec', i)
            return world._finish_body(i, NoResultError)

        async def t_annot(i, cur: PlainThing = None, n: int = 0):  # type: ignore[assignment]  # noqa: ANN001
            # same body as t_async; the annotated parameters exercise argument parsing on the way in
            return await t_async(i)

        self._NoResultError_ = NoResultError
        if self.sc.get("executor") == "pickle":
            # only where it is needed: registering one long-lived function object on thousands of brokers
            # makes the process grow (about 13 KB per world)
            broker.register_task(t_sync_global, task_name="t_sync_g")
        t_async.__module__ = "mc.recv_world"
        t_sync.__module__ = "mc.recv_world"
        t_annot.__module__ = "mc.recv_world"
        broker.register_task(t_async, task_name="t_async")
        if self.sc.get("reregister"):
            # one task name whose function is registered again (sync <-> async) between executions: every
            # message runs the function registered under the name when it is processed (A = 1, in order)
            self._swap = (broker, {"sync": t_sync, "async": t_async})
            broker.register_task(self._swap[1][self.msgs[0]["flavour"]], task_name="t_swap")
        broker.register_task(t_sync, task_name="t_sync")
        broker.register_task(t_annot, task_name="t_annot")

    def _install_middlewares(self, broker: Any, TaskiqMiddleware: Any) -> None:
        world = self
        evname = {"pre_execute": "PRE", "on_error": "ONERR", "post_execute": "POST", "post_save": "PSAVE"}
        for mi, spec in enumerate(self.sc.get("mws", [])):
            methods: Dict[str, Any] = {}
            for hook, mode in spec.get("hooks", {}).items():
                methods[hook] = self._mk_hook(
                    hook, evname[hook], mode, mi, spec.get("fail", {}).get(hook, ()), bool(spec.get("replace")),
                    spec.get("fail_exc"),
                )
            cls = make_mw_class(f"RecMW{mi}", TaskiqMiddleware, methods, spec.get("inherit"))
            broker.add_middlewares(cls())

    def _mk_hook(self, hook: str, ev: str, mode: str, mi: int, fail: Any, replace: bool = False, fail_exc: Any = None) -> Any:
        world = self

        def marks(message: Any) -> Any:
            return tuple(sorted(k for k in message.labels if k.startswith("mw")))

        def done(message: Any) -> Any:
            if fail == "all" or world.idx_of(message.task_id) in fail:
                raise fault_exc(fail_exc, f"hook {hook} of middleware {mi} fails")
            if hook != "pre_execute":
                return None
            if replace:
                return message.model_copy(update={"labels": {**message.labels, f"mw{mi}": mi}})
            return message

        if mode == "sync":
            def h(self, message, *rest):  # noqa: ANN001
                world.emit(ev, world.idx_of(message.task_id), mi, marks(message))
                return done(message)
        elif mode == "async":
            async def h(self, message, *rest):  # noqa: ANN001
                world.emit(ev, world.idx_of(message.task_id), mi, marks(message))
                return done(message)
        elif mode == "future":
            # a plain function that returns a Task (an awaitable that is not a coroutine)
            def h(self, message, *rest):  # noqa: ANN001
                async def body() -> Any:
                    world.emit(ev, world.idx_of(message.task_id), mi, marks(message))
                    await asyncio.sleep(0)
                    world.emit(ev + "_E", world.idx_of(message.task_id), mi)
                    return done(message)

                return asyncio.ensure_future(body())
        else:
            async def h(self, message, *rest):  # noqa: ANN001
                i = world.idx_of(message.task_id)
                world.emit(ev, i, mi, marks(message))
                await world.gate(("hook", i, mi, hook))
                world.emit(ev + "_E", i, mi)
                return done(message)
        h.__name__ = hook
        return h

    def _make_ack(self, i: int, mode: str) -> Any:
        world = self
        fails = self.msgs[i].get("ack_fails")
        if mode == "sync":
            def ack() -> None:
                world.emit("ACK_B", i)
                if fails:
                    world.emit("ACK_F", i)
                    raise fault_exc(fails, "ack failed")
                world.emit("ACK_E", i)
        else:
            async def ack_coro() -> None:
                world.emit("ACK_B", i)
                if "ack" in world.msgs[i]["gates"]:
                    await world.gate(("ack", i))
                if fails:
                    world.emit("ACK_F", i)
                    raise fault_exc(fails, "ack failed")
                world.emit("ACK_E", i)

            if mode == "future":
                # a broker whose ack returns a Task/Future (an awaitable that is not a coroutine)
                def ack() -> Any:  # type: ignore[misc]
                    return asyncio.ensure_future(ack_coro())
            else:
                ack = ack_coro  # type: ignore[assignment]
        return ack

    def _on_ret(self) -> None:
        if not self.ret:
            self.ret = True
            self.emit("RET")

    def after_step(self) -> None:
        super().after_step()
        # listen() has returned - whether or not it told its on_exit callback
        if not self.ret and self.listen_task.done() and not self.listen_task.cancelled() and self.listen_task.exception() is None and self.sc.get("entry") != "api":
            self._on_ret()

    # ------------------------------------------------------------------ helpers
    def idx_of(self, task_id: str) -> int:
        if self._shared_ids:
            # two deliveries share this id: the one whose function ran in the current asyncio task
            cur = _CUR_DELIVERY.get()
            if cur is not None:
                return cur
        return int(task_id[1:])

    def msg_index(self, message: Any) -> int:
        """Index of the message a callback has just been started for."""
        cands = self._wire_ids.get(id(message))
        if not cands:
            raise HarnessError("callback received an object the broker never yielded")
        if len(cands) == 1:
            return cands[0]
        # identical payload objects: the one taken earliest that has not begun processing yet
        begun = set(self.cb_open) | set(self.cb_done)
        for k in self.taken:
            if k in cands and k not in begun:
                return k
        return cands[0]

    def _index_of_obj(self, v: Any) -> Any:
        cands = self._wire_ids.get(id(v))
        if not cands:
            return None
        return cands[0] if len(cands) == 1 else tuple(cands)

    def res_summary(self, r: Any) -> Any:
        err = r.error
        return (
            bool(r.is_err),
            type(err).__name__ if err is not None else None,
            repr(r.return_value),
        )

    # ------------------------------------------------------------------ menu
    def enabled(self) -> List[Any]:
        menu = super().enabled()
        budget = self.sc.get("max_body")
        if budget is not None and self.bodies_fired >= budget:
            menu = [e for e in menu if not (e[0] in ("gate", "exec") and (e[0] == "exec" or e[1][0] == "body"))]
        return menu

    def fire(self, ev: Any) -> None:
        if (ev[0] == "gate" and ev[1][0] == "body") or ev[0] == "exec":
            self.bodies_fired += 1
        super().fire(ev)

    def metrics(self) -> Dict[str, int]:
        return {"max_inflight": self.max_inflight, "max_unfinished": self.max_unfinished}

    def extra_enabled(self) -> List[Any]:
        out: List[Any] = list(self.executor.enabled())
        if self.sc.get("stop", True) and not self.stop_requested:
            out.append(("stop",))
        return out

    def fire_extra(self, ev: Any) -> None:
        if ev[0] == "stop":
            self.stop_requested = True
            self.t_stop = self.loop._vt_us
            self.emit("STOP")
            self.finish_event.set()
        elif ev[0] == "exec":
            self.executor.complete(ev[1])
        elif ev[0] == "exec_start":
            self.executor.start(ev[1])
        else:
            raise HarnessError(f"unknown event {ev!r}")

    def terminal(self) -> bool:
        return self.listen_task.done() or self.loop.killed is not None

    def extra_teardown(self) -> None:
        self.executor.abort_all()

    # ------------------------------------------------------------------ monitors
    def on_event(self, ev: Tuple[Any, ...]) -> None:
        self.times.append(self.loop._vt_us)
        kind = ev[0]
        if len(ev) > 1 and isinstance(ev[1], int) and ev[1] in self.per:
            self.per[ev[1]].append((kind,) + tuple(ev[2:]))
        if kind == "CB_E" and self.sc.get("reregister") and ev[1] + 1 < len(self.msgs) and getattr(self, "_swap", None):
            self._swap[0].register_task(self._swap[1][self.msgs[ev[1] + 1]["flavour"]], task_name="t_swap")
        if kind == "TAKEN":
            self.taken.append(ev[1])
            self._check_unfinished()
            if self.N and len(self.taken) == self.N and self.t_sd is None:
                self.t_sd, self.sd_cause = self.loop._vt_us, "max-tasks"
            if self.ret:
                self.flag("C05:taken-after-return", f"message {ev[1]} taken after listen() returned")
        elif kind == "CB_B":
            self.cb_open.append(ev[1])
            if len(self.cb_open) > self.max_inflight:
                self.max_inflight = len(self.cb_open)
            if self.A is not None and len(self.cb_open) > self.A:
                self.flag(
                    "C03:over-admission",
                    f"{len(self.cb_open)} messages in processing {self.cb_open} with max_async_tasks={self.A}",
                )
            if self.A == 1:
                expect = [k for k in self.taken if k not in self.cb_done and k != ev[1]]
                if any(k < ev[1] for k in expect if k not in self.cb_open):
                    self.flag("C03:order", f"message {ev[1]} processed before earlier delivered {expect}")
        elif kind == "CB_E":
            if ev[1] in self.cb_open:
                self.cb_open.remove(ev[1])
            self.cb_done.append(ev[1])
            self.t_last_finish = self.loop._vt_us
        elif kind in ("STOP", "EOS"):
            if self.t_sd is None:
                self.t_sd, self.sd_cause = self.loop._vt_us, kind.lower()
        elif kind == "END":
            if ev[1] in self.body_open:
                self.body_open.remove(ev[1])
        elif kind == "START":
            self.body_open.append(ev[1])
            if self.A is not None and len(self.body_open) > self.A:
                self.flag(
                    "C03:over-admission-bodies",
                    f"{len(self.body_open)} task functions executing at once {self.body_open} with max_async_tasks={self.A}",
                )
            if ev[1] in self.started:
                self.flag("C01:duplicate-execution", f"task function of message {ev[1]} invoked twice")
            self.started.append(ev[1])
            if self.msgs[ev[1]]["kind"] != "valid":
                self.flag("C01:junk-executed", f"task function invoked for {self.msgs[ev[1]]['kind']} message {ev[1]}")

    def acks_in_flight(self) -> List[int]:
        out = []
        for i, log in self.per.items():
            kinds = [e[0] for e in log]
            if kinds.count("ACK_B") > kinds.count("ACK_E") + kinds.count("ACK_F"):
                out.append(i)
        return out

    def _check_unfinished(self) -> None:
        # a message is finished when its callback has ended and no acknowledgement of it is still in flight
        done = [k for k in self.cb_done if k not in self.acks_in_flight()]
        unfinished = len(self.taken) - len(done)
        if unfinished > self.max_unfinished:
            self.max_unfinished = unfinished
        if self.A is not None and unfinished > self.A + self.P + 1:
            self.flag(
                "C04:bound-exceeded",
                f"{unfinished} unfinished messages (taken {self.taken}, finished {self.cb_done}) with A={self.A} P={self.P}",
            )

    def check_quiescent(self) -> None:
        if self.loop.killed is not None and not getattr(self, "_kill_reported", False):
            self._kill_reported = True
            why = f"{type(self.loop.killed).__name__} raised by a task escaped from the event loop: the worker stops, messages {[k for k in self.taken if k not in self.cb_done]} are abandoned"
            for prop in ("C01", "C03", "C05", "C07", "C10"):
                self.flag(f"{prop}:worker-loop-killed-by-task-exception", why)
        if self.loop.errors:
            for ctx in self.loop.errors:
                exc = ctx.get("exception")
                self.note_loop_error(ctx, exc)
            self.loop.errors.clear()
        # completion: nothing in processing -> every taken valid message has started
        # a valid message whose processing ended without its task function ever being invoked
        for k in self.cb_done:
            if self.msgs[k]["kind"] == "valid" and k not in self.started and not self.sc.get("mws") and k not in getattr(self, "_nx_flagged", set()):
                self.__dict__.setdefault("_nx_flagged", set()).add(k)
                self.flag("C01:processed-without-execution", f"processing of message {k} ended but its task function was never invoked: {self.per[k]}")
        if self.ret and self.W is None:
            # listen() has returned (the worker process goes on to shut down) although a taken message
            # is still waiting, inside its processing, for its function to be invoked
            for k in self.cb_open:
                if self.msgs[k]["kind"] == "valid" and k not in self.started and not self.relaxed(k) and k not in getattr(self, "_rb_flagged", set()):
                    self.__dict__.setdefault("_rb_flagged", set()).add(k)
                    self.flag(
                        "C01:dropped" + self.drop_context(),
                        f"listen() returned while message {k} was still waiting to be executed (taken={self.taken}, started={self.started}): {self.per[k]}",
                    )
        if not self.cb_open:
            for k in self.taken:
                if self.msgs[k]["kind"] == "valid" and k not in self.started and k not in self.cb_done:
                    if self.ret or self._handed_over_or_lost(k):
                        self.flag(
                            "C01:dropped" + self.drop_context(),
                            f"message {k} was taken from the broker but never executed (taken={self.taken}, started={self.started}, ret={self.ret})",
                        )

    def _handed_over_or_lost(self, k: int) -> bool:
        """At a quiescent state with nothing in processing, a taken message that has not
        started is only legitimate while the prefetcher still holds it for hand-over."""
        # the prefetcher is alive and will hand it over at its next wake-up (a timer) ->
        # not lost yet; the final verdict is taken at RET / stuck states.
        return not self.enabled()

    def drop_context(self) -> str:
        if self.N:
            return "|max-tasks"
        if self.stop_requested:
            return "|stop"
        return "|other"

    def note_loop_error(self, ctx: Dict[str, Any], exc: Any) -> None:
        pass

    def check_terminal(self) -> None:
        if not self.ret and not self.listen_task.done():
            # stuck: no enabled event, listen() has not returned
            running_never = [k for k in self.cb_open if self.msgs[k]["outcome"] == "never"]
            self.on_stuck(running_never)

    def on_stuck(self, running_never: List[int]) -> None:
        pass

    def monitor_state(self) -> Any:
        return (
            tuple((i, tuple(l)) for i, l in self.per.items()),
            tuple(self.started),
            tuple(self.cb_open),
            tuple(self.body_open),
            self.stop_requested,
            self.ret,
            self.bodies_fired if self.sc.get("max_body") is not None else None,
            self.extra_monitor_state(),
        )

    def extra_monitor_state(self) -> Any:
        return ()

    def outcome(self) -> Any:
        return (tuple((i, tuple(l)) for i, l in self.per.items()), self.ret, self.stop_requested)

    # ------------------------------------------------------------------ fingerprint support
    def abstract(self, v: Any) -> Any:
        i = self._index_of_obj(v)
        if i is not None:
            return ("msg", i)
        from taskiq.message import TaskiqMessage
        from taskiq.receiver import Receiver
        from taskiq.result import TaskiqResult

        if isinstance(v, Receiver):
            sem = v.sem
            return (
                "R",
                None if sem is None else (sem._value, len(sem._waiters or ())),
                (v.sem_prefetch._value, len(v.sem_prefetch._waiters or ())),
                self._hidden_state(v),
            )
        if isinstance(v, TaskiqMessage):
            return ("TM", v.task_id, tuple(sorted((k, repr(x)) for k, x in v.labels.items())))
        if isinstance(v, TaskiqResult):
            return ("TR",) + self.res_summary(v)
        if isinstance(v, bytes) and v == b"-1":
            return "QUEUE_DONE"
        return NotImplemented

    _R_SKIP = frozenset({
        "broker", "executor", "sem", "sem_prefetch", "on_exit", "task_signatures", "task_hints", "dependency_graphs",
        "known_tasks", "listen_queue",
    })

    def _hidden_state(self, recv: Any) -> Any:
        """Whatever else the receiver (and its broker) remembers between messages - a counter, a flag, a
        'current message' attribute, a list of open contexts: part of the fingerprint, so that two
        histories are merged only if the implementation itself cannot tell them apart. Computed once
        per fingerprint."""
        if self._hidden_cache is not None:
            return self._hidden_cache
        from collections import deque

        from mc.send_world import scalar_attrs

        owners: Dict[int, Any] = {}

        def owner(x: Any) -> Any:
            """Which live task holds this object in a frame local (e.g. 'the dep_ctx of callback 2'):
            identifies an opaque object independently of the path that led here."""
            if not owners:
                owners[0] = None
                from mc.vloop import _frame_of, _resolve_opaque

                for t in asyncio.all_tasks(self.loop):
                    if t.done():
                        continue
                    name = repr(self.name_of(t))
                    obj: Any = t.get_coro()
                    hops = 0
                    while obj is not None and hops < 64:
                        hops += 1
                        frame, nxt = _frame_of(obj)
                        if frame is None:
                            obj = _resolve_opaque(obj) if not isinstance(obj, asyncio.Future) else None
                            continue
                        for ln, lv in frame.f_locals.items():
                            if not isinstance(lv, (bool, int, float, str, bytes, type(None))):
                                owners.setdefault(id(lv), (name, frame.f_code.co_name, ln))
                        obj = nxt
            return owners.get(id(x))

        def hv(x: Any, depth: int = 0) -> Any:
            if x is None or isinstance(x, (bool, int, float, str, bytes)):
                return x
            a = self.abstract(x)
            if a is not NotImplemented:
                return a
            if isinstance(x, (asyncio.Future, asyncio.Semaphore, asyncio.Queue, asyncio.Event, BaseException)):
                return self.abs_val(x, 2)
            if depth < 3:
                if isinstance(x, (list, tuple, deque)):
                    return (type(x).__name__,) + tuple(hv(y, depth + 1) for y in x)
                if isinstance(x, (set, frozenset)):
                    return ("set",) + tuple(sorted((hv(y, depth + 1) for y in x), key=repr))
                if isinstance(x, dict):
                    return ("dict",) + tuple(sorted(((hv(k, depth + 1), hv(y, depth + 1)) for k, y in x.items()), key=repr))
            return ("obj", type(x).__name__, owner(x))

        out = []
        for k, x in sorted(vars(recv).items()):
            if k in self._R_SKIP:
                continue
            out.append((k, hv(x)))
        self._hidden_cache = (tuple(out), scalar_attrs(recv.broker))
        return self._hidden_cache

    _hidden_cache: Any = None

    def fingerprint(self) -> Any:
        self._hidden_cache = None
        try:
            return super().fingerprint()
        finally:
            self._hidden_cache = None

    def task_name(self, task: "asyncio.Task[Any]") -> Any:
        coro = task.get_coro()
        frame = getattr(coro, "cr_frame", None)
        if frame is not None and frame.f_code.co_name == "callback":
            m = frame.f_locals.get("message") or (frame.f_locals.get("args") or (None,))[0] or (frame.f_locals.get("kwargs") or {}).get("message")
            if "i" in frame.f_locals and isinstance(frame.f_locals["i"], int):
                return ("callback", frame.f_locals["i"])
            i = self._index_of_obj(m)
            if i is not None:
                return ("callback", i)
        return NotImplemented
