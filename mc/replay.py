"""python -m mc.replay <replay.json> : re-run one recorded case, no search."""
from __future__ import annotations

import importlib
import json
import os
import sys


def main() -> int:
    if os.environ.get("PYTHONHASHSEED") != "0":
        env = dict(os.environ)
        env["PYTHONHASHSEED"] = "0"
        os.execve(sys.executable, [sys.executable, "-m", "mc.replay", *sys.argv[1:]], env)
    from mc.common import setup_repo_path

    setup_repo_path()
    import logging

    logging.disable(logging.CRITICAL)
    obj = json.load(open(sys.argv[1]))
    mod = importlib.import_module(f"mc.props.{obj['property'].lower()}")
    print(f"replaying {obj['property']} key={obj.get('key')}: {obj.get('message', '')[:300]}")
    rc = mod.replay(obj["replay"])
    print("REPRODUCED" if rc else "not reproduced (property holds on this case)")
    return rc


if __name__ == "__main__":
    sys.exit(main())
