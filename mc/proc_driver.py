"""BFS over tick histories of ProcessManager.start() (E2), shared by C17 and C18."""
from __future__ import annotations

import json
from typing import Any, Dict, List

from mc.common import Acc, jsonable
from mc.proc_monitor import Monitor
from mc.procworld import canonical, run_history, tick_alphabet


def explore_config(prop: str, workers: int, max_fails: int, max_dev: int, max_depth: int, acc: Acc, opts: Any = None) -> None:
    prefix = prop + ":"
    alpha = tick_alphabet(workers, deviations=max_dev > 0)
    seen = set()
    frontier: List[List[Dict[str, Any]]] = [[]]
    env0 = run_history(workers, max_fails, [], Monitor(), opts)
    seen.add((canonical(env0), 0))
    acc.states += 1
    acc.paths += 1
    depth = 0
    fix = False
    import time as _time

    t0 = _time.process_time()
    stop = False
    while frontier and not stop:
        if depth >= max_depth:
            acc.cap(f"depth bound {max_depth} reached before the fixpoint for workers={workers} max_fails={max_fails}")
            break
        nxt: List[List[Dict[str, Any]]] = []
        for hist in frontier:
            used = sum(1 for t in hist if t.get("dev"))
            for choice in alpha:
                if choice.get("dev") and used >= max_dev:
                    continue
                h = hist + [choice]
                mon = Monitor()
                env = run_history(workers, max_fails, h, mon, opts)
                acc.transitions += 1
                acc.paths += 1
                for f in mon.facts:
                    acc.count("fact_" + f)
                for key, msg in mon.violations:
                    if key.startswith(prefix):
                        acc.violation(
                            key[len(prefix):],
                            f"{msg} | workers={workers} max_fails={max_fails}{(' options=' + json.dumps(opts)) if opts else ''} history={json.dumps(jsonable(_brief(h)))}",
                            {"workers": workers, "max_fails": max_fails, "history": h, "key": key, "opts": opts},
                        )
                if any(k.startswith(prefix) for k, _ in mon.violations) and len(acc.violations) >= 6:
                    stop = True  # this configuration has failed; more histories add nothing
                if _time.process_time() - t0 > 240:
                    acc.cap(f"time budget exhausted for workers={workers} max_fails={max_fails}")
                    stop = True
                if stop:
                    break
                c = canonical(env)
                k = (c, used + (1 if choice.get("dev") else 0))
                if c[0] == "end":
                    acc.outcome((workers, max_fails, c[1], tuple(sorted(mon.facts))))
                    acc.count("terminal_histories")
                    continue
                if k in seen:
                    continue
                seen.add(k)
                acc.states += 1
                nxt.append(h)
                if len(nxt) == 3 or acc.transitions % 2003 == 1:
                    acc.sample({"workers": workers, "max_fails": max_fails, "history": _brief(h), "trace_tail": [list(map(str, e)) for e in env.events[-8:]]})
            if stop:
                break
        frontier = nxt
        depth += 1
    if not frontier and not stop:
        fix = True
    acc.maximum(f"fixpoint_depth_w{workers}_f{max_fails}", depth)
    if fix:
        acc.count("configs_at_fixpoint")
    acc.count("configs")


LONG_ALPHABET: List[Dict[str, Any]] = [
    {"die": [], "sig": None, "crash": []},
    {"die": [], "sig": "HUP", "crash": []},
    {"die": [], "sig": "FILE", "crash": []},
    {"die": [0], "sig": None, "crash": []},
    {"die": [], "sig": "INT", "crash": []},
]


def explore_long(prop: str, workers: int, max_fails: int, depth: int, acc: Acc) -> None:
    """Every history up to `depth` ticks over a 5-letter alphabet, WITHOUT state matching.

    The BFS above merges histories on the canonical tick-boundary state, which cannot contain state the
    manager hides from the harness (a counter in a closure, an attribute the canonical form does not
    read). This pass is the guard against that: long repetitions of the same event are run as they are.
    """
    prefix = prop + ":"
    import time as _time

    t0 = _time.process_time()
    stack: List[List[Dict[str, Any]]] = [[c] for c in reversed(LONG_ALPHABET)]
    while stack:
        h = stack.pop()
        mon = Monitor()
        env = run_history(workers, max_fails, h, mon)
        acc.transitions += 1
        acc.paths += 1
        acc.count("long_histories")
        hit = False
        for key, msg in mon.violations:
            if key.startswith(prefix):
                hit = True
                acc.violation(
                    key[len(prefix):],
                    f"{msg} | workers={workers} max_fails={max_fails} history={json.dumps(jsonable(_brief(h)))}",
                    {"workers": workers, "max_fails": max_fails, "history": h, "key": key},
                )
        if env.returned != "running":
            acc.outcome(("long", workers, max_fails, env.returned if isinstance(env.returned, str) else env.returned[0], len(h)))
            continue
        if hit or len(h) >= depth:
            continue
        if _time.process_time() - t0 > 200:
            acc.cap(f"time budget exhausted in the long-history pass for workers={workers} max_fails={max_fails}")
            break
        for c in reversed(LONG_ALPHABET):
            stack.append(h + [c])
    acc.maximum("long_history_depth", depth)


def _brief(h: List[Dict[str, Any]]) -> List[Dict[str, Any]]:
    return [{k: v for k, v in t.items() if v not in (None, [], 0) or k == "lag" and v is not None} for t in h]


def replay(obj: Dict[str, Any]) -> int:
    mon = Monitor()
    env = run_history(obj["workers"], obj["max_fails"], obj["history"], mon, obj.get("opts"))
    print(f"workers={obj['workers']} max_fails={obj['max_fails']} options={obj.get('opts')}")
    print("history:", json.dumps(jsonable(_brief(obj["history"]))))
    print("trace:")
    for e in env.events:
        print("   ", e)
    print("outcome:", env.returned)
    hit = False
    for k, m in mon.violations:
        print("oracle:", k, "-", m)
        hit = hit or k == obj["key"]
    return 1 if hit else 0
