"""CLI: python -m mc.run --property C01 --tier quick|thorough [--procs N]."""
from __future__ import annotations

import argparse
import importlib
import multiprocessing as mp
import os
import sys
import time
import traceback


def _reexec_with_hashseed() -> None:
    if os.environ.get("PYTHONHASHSEED") != "0":
        env = dict(os.environ)
        env["PYTHONHASHSEED"] = "0"
        os.execve(sys.executable, [sys.executable, "-m", "mc.run", *sys.argv[1:]], env)


def _worker(args):
    modname, shard = args
    from mc.common import Acc, setup_repo_path

    setup_repo_path()
    mod = importlib.import_module(modname)
    try:
        return mod.run_shard(shard)
    except BaseException as exc:  # crash: report, never hide
        from mc.common import repo_path

        acc = Acc()
        tb = traceback.extract_tb(exc.__traceback__)
        inner = tb[-1].filename if tb else ""
        in_impl = inner.startswith(repo_path().rstrip("/") + "/") and not type(exc).__name__ == "HarnessError"
        if in_impl:
            # an exception raised by the code under test escaped through the harness: the
            # property cannot have held on that execution
            acc.violation(
                f"implementation-raised-{type(exc).__name__}",
                f"{type(exc).__name__}: {exc} raised at {inner}:{tb[-1].lineno} while running shard {repr(shard)[:300]}",
                {"shard": repr(shard)[:2000], "traceback": traceback.format_exc()[-1500:]},
            )
        acc.cap(f"shard crashed: {type(exc).__name__}: {exc}")
        acc.notes.append(traceback.format_exc()[-1500:])
        return acc.as_dict()


def main() -> int:
    ap = argparse.ArgumentParser()
    ap.add_argument("--property", required=True)
    ap.add_argument("--tier", default=os.environ.get("VERIF_TIER", "quick"))
    ap.add_argument("--procs", type=int, default=int(os.environ.get("VERIF_PROCS", "16")))
    ap.add_argument("--only", default=None, help="substring filter on shard repr (debug)")
    a = ap.parse_args()
    _reexec_with_hashseed()
    from mc.common import Acc, finish, setup_repo_path, shuffled

    setup_repo_path()
    import logging

    logging.disable(logging.CRITICAL)
    pid = a.property.upper()
    tier = a.tier if a.tier in ("quick", "thorough") else "quick"
    os.environ["MC_TIER"] = tier
    seed = int(os.environ.get("VERIF_SEED", "0") or 0)
    modname = f"mc.props.{pid.lower()}"
    mod = importlib.import_module(modname)
    t0 = time.time()
    shards = mod.shards(tier, seed)
    if a.only:
        shards = [s for s in shards if a.only in repr(s)]
    shards = shuffled(shards, seed)
    acc = Acc()
    if a.procs <= 1 or len(shards) <= 1:
        for s in shards:
            acc.merge(_worker((modname, s)))
    else:
        ctx = mp.get_context("fork")
        with ctx.Pool(min(a.procs, len(shards))) as pool:
            for d in pool.imap_unordered(_worker, [(modname, s) for s in shards], chunksize=1):
                acc.merge(d)
    acc.count("shards", len(shards))
    return finish(pid, tier, seed, acc, mod.META, time.time() - t0)


if __name__ == "__main__":
    sys.exit(main())
