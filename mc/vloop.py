"""E1: hand-stepped asyncio loop + explicit-state explorer over the real code.

VLoop is an asyncio.BaseEventLoop whose clock, timers and ready queue are moved
only by the explorer.  A *world* (subclass of World) builds the real taskiq
objects on such a loop and turns every external event into a labelled choice.
`explore()` walks the graph of quiescent states (ready queue empty) reachable by
firing enabled events, identifying states by a fingerprint of the live coroutine
frames + shared objects + environment + monitors, and replaying histories on a
fresh world because live coroutines cannot be copied.
"""
from __future__ import annotations

import asyncio
import collections
import gc
import heapq
import inspect
import itertools
import sys
import types
from asyncio import events
from typing import Any, Callable, Dict, List, Optional, Tuple

MAX_GENERATIONS = 20000


class Livelock(Exception):
    pass


class HarnessError(Exception):
    """The harness itself lost determinism / consistency (never a verdict)."""


class VTimerHandle(events.TimerHandle):
    __slots__ = ["_vseq"]


class VLoop(asyncio.BaseEventLoop):
    """Event loop stepped by hand; integer-microsecond virtual clock."""

    def __init__(self) -> None:
        super().__init__()
        self._vt_us = 0
        self._seq = itertools.count()
        self.errors: List[Dict[str, Any]] = []
        self.killed: Optional[BaseException] = None
        self.set_exception_handler(self._on_error)

    # --- clock ---------------------------------------------------------------
    def time(self) -> float:
        return self._vt_us / 1_000_000

    # --- things a selector loop would do --------------------------------------
    def _write_to_self(self) -> None:  # pragma: no cover - nothing to wake
        pass

    def _process_events(self, event_list: Any) -> None:  # pragma: no cover
        pass

    def _on_error(self, loop: Any, context: Dict[str, Any]) -> None:
        self.errors.append(context)

    def call_at(self, when, callback, *args, context=None):  # type: ignore[override]
        if when is None:
            raise TypeError("when cannot be None")
        self._check_closed()
        h = VTimerHandle(when, callback, args, self, context)
        h._vseq = next(self._seq)
        heapq.heappush(self._scheduled, h)
        h._scheduled = True
        return h

    # --- stepping ---------------------------------------------------------------
    def quiescent(self) -> bool:
        return not self._ready

    def run_generation(self) -> None:
        """Run exactly the handles that are ready now (one loop iteration)."""
        n = len(self._ready)
        for _ in range(n):
            if not self._ready:
                break
            h = self._ready.popleft()
            if h._cancelled:
                continue
            try:
                h._run()
            except (KeyboardInterrupt, SystemExit) as exc:
                # asyncio lets these two escape from a task straight out of run_forever():
                # the real worker's loop (and process) would stop here
                self.killed = exc
                self._ready.clear()
                break
        h = None

    def run_to_quiescence(self) -> int:
        g = 0
        while self._ready:
            self.run_generation()
            g += 1
            if g > MAX_GENERATIONS:
                raise Livelock("ready queue never drains")
        return g

    def pending_timers(self) -> List[Any]:
        return sorted(
            (h for h in self._scheduled if not h._cancelled),
            key=lambda h: (round(h._when * 1_000_000), h._vseq),
        )

    def fire_timer(self, h: Any) -> None:
        self._scheduled.remove(h)
        heapq.heapify(self._scheduled)
        h._scheduled = False
        us = round(h._when * 1_000_000)
        if us > self._vt_us:
            self._vt_us = us
        self._ready.append(h)


# --------------------------------------------------------------------------- fingerprint helpers


def _frame_of(obj: Any) -> Tuple[Optional[types.FrameType], Any]:
    """(frame, awaited-object) for coroutine / generator / async generator."""
    if inspect.iscoroutine(obj):
        return obj.cr_frame, obj.cr_await
    if inspect.isasyncgen(obj):
        return obj.ag_frame, obj.ag_await
    if inspect.isgenerator(obj):
        return obj.gi_frame, obj.gi_yieldfrom
    return None, None


def _resolve_opaque(obj: Any) -> Any:
    """C-level awaitables (FutureIter, async_generator_asend, coroutine_wrapper...)."""
    for r in gc.get_referents(obj):
        if inspect.iscoroutine(r) or inspect.isasyncgen(r) or inspect.isgenerator(r):
            return r
        if isinstance(r, asyncio.Future):
            return r
    return None


class World:
    """Base class: owns a VLoop, gates, the event log and monitors."""

    # locals that hold wall-clock readings (never influence control flow)
    ignore_locals: frozenset = frozenset()
    # dead loop variables of library frames whose value depends on set iteration order
    # (address-hashed Task objects); they are reassigned before any further use
    ignore_locals_in: Dict[str, frozenset] = {"_wait": frozenset({"f"})}

    def __init__(self) -> None:
        self.loop = VLoop()
        self.gates: Dict[Any, asyncio.Future] = {}
        self.gate_order: List[Any] = []
        self.special: Dict[Any, Callable[[], None]] = {}  # label -> fire fn (non-future events)
        self.log: List[Tuple[Any, ...]] = []
        self.violations: List[Tuple[str, str]] = []
        self.muted = False
        self.closed = False

    # ---- environment -------------------------------------------------------------
    def activate(self) -> None:
        events._set_running_loop(None)
        events._set_running_loop(self.loop)

    def gate(self, label: Any) -> "asyncio.Future[Any]":
        """Create an external-event future the code under test will await."""
        if label in self.gates:
            raise HarnessError(f"gate {label!r} created twice")
        fut = self.loop.create_future()
        self.gates[label] = fut
        self.gate_order.append(label)
        return fut

    def emit(self, *ev: Any) -> None:
        if self.muted:
            return
        self.log.append(ev)
        self.on_event(ev)

    def flag(self, key: str, msg: str) -> None:
        if not self.muted:
            self.violations.append((key, msg))

    # ---- to be provided by subclasses ------------------------------------------------
    def on_event(self, ev: Tuple[Any, ...]) -> None:
        pass

    def extra_enabled(self) -> List[Any]:
        return []

    def fire_extra(self, label: Any) -> None:
        raise HarnessError(f"unknown event {label!r}")

    def terminal(self) -> bool:
        return False

    def monitor_state(self) -> Any:
        return ()

    def after_step(self) -> None:
        """Called after every explorer step reached quiescence."""

    def check_quiescent(self) -> None:
        """Oracles evaluated on every quiescent state."""

    def check_terminal(self) -> None:
        """Oracles evaluated on states with an empty menu."""

    def metrics(self) -> Dict[str, int]:
        """Per-path maxima the explorer aggregates over all visited states."""
        return {}

    def outcome(self) -> Any:
        """Canonical description of a terminal state (for distinct-outcome counts)."""
        return tuple(self.log)

    def abstract(self, v: Any) -> Any:
        """World-specific abstraction of a heap object; NotImplemented = generic."""
        return NotImplemented

    def task_name(self, task: "asyncio.Task[Any]") -> Any:
        return NotImplemented

    # ---- menu ---------------------------------------------------------------------------
    def timer_label(self, h: Any) -> Tuple[Any, ...]:
        cb = h._callback
        kind = getattr(cb, "__qualname__", None) or getattr(cb, "__name__", None) or type(cb).__name__
        owner: Any = None
        slf = getattr(cb, "__self__", None)
        t = getattr(slf, "_task", None)
        if isinstance(t, asyncio.Task):
            owner = self.name_of(t)
        else:
            futs = [a for a in (h._args or ()) if isinstance(a, asyncio.Future)]
            for task in asyncio.all_tasks(self.loop):
                if task._fut_waiter is not None and task._fut_waiter in futs:
                    owner = self.name_of(task)
                    break
        return (kind, owner)

    def enabled(self) -> List[Any]:
        """Deterministically ordered menu of external events enabled now."""
        if self.terminal():
            return []
        out: List[Any] = []
        for label in sorted(self.gate_order, key=repr):
            fut = self.gates[label]
            if not fut.done() and fut._callbacks:
                out.append(("gate", label))
        out.extend(self.extra_enabled())
        timers = self.loop.pending_timers()
        if timers:
            first = round(timers[0]._when * 1_000_000)
            counts: Dict[Any, int] = {}
            for h in timers:
                if round(h._when * 1_000_000) != first:
                    break
                lab = self.timer_label(h)
                k = counts.get(lab, 0)
                counts[lab] = k + 1
                out.append(("timer", first - self.loop._vt_us, lab, k))
        return out

    def fire(self, ev: Any) -> None:
        """Inject one external event (does not run the loop)."""
        if ev[0] == "gate":
            fut = self.gates.get(ev[1])
            if fut is None or fut.done():
                raise HarnessError(f"event {ev!r} not enabled")
            fut.set_result(None)
        elif ev[0] == "timer":
            timers = self.loop.pending_timers()
            if not timers:
                raise HarnessError(f"event {ev!r}: no timers")
            first = round(timers[0]._when * 1_000_000)
            k = 0
            for h in timers:
                if round(h._when * 1_000_000) != first:
                    break
                if self.timer_label(h) == tuple(ev[2]) or self.timer_label(h) == ev[2]:
                    if k == ev[3]:
                        self.emit("TIMER", ev[2])
                        self.loop.fire_timer(h)
                        return
                    k += 1
            raise HarnessError(f"event {ev!r} not enabled (timers: {[self.timer_label(h) for h in timers]})")
        else:
            self.fire_extra(ev)

    # ---- fingerprint ----------------------------------------------------------------------
    def name_of(self, task: "asyncio.Task[Any]") -> Any:
        n = self.task_name(task)
        if n is not NotImplemented:
            return n
        coro = task.get_coro()
        names = []
        obj: Any = coro
        for _ in range(3):
            frame, nxt = _frame_of(obj)
            if frame is None:
                break
            names.append(frame.f_code.co_qualname)
            obj = nxt
            if obj is None:
                break
        if not names:
            names.append(getattr(coro, "__qualname__", type(coro).__name__))
        return tuple(names)

    def abs_val(self, v: Any, depth: int = 0) -> Any:
        if v is None or isinstance(v, (bool, int, str, float)):
            return v
        a = self.abstract(v)
        if a is not NotImplemented:
            return a
        if isinstance(v, bytes):
            return v if len(v) < 24 else ("bytes", len(v), hash(v))
        if isinstance(v, asyncio.Task):
            return ("T", self.name_of(v), v.done())
        if isinstance(v, asyncio.Future):
            for label, fut in self.gates.items():
                if fut is v:
                    return ("G", label, v.done())
            return ("F", v.done(), v.cancelled() if v.done() else None)
        if isinstance(v, asyncio.Semaphore):
            return ("S", v._value, len(v._waiters or ()))
        if isinstance(v, asyncio.Queue):
            return ("Q", tuple(self.abs_val(x, depth + 1) for x in v._queue), len(v._getters), len(v._putters))
        if isinstance(v, asyncio.Event):
            return ("E", v.is_set())
        if isinstance(v, BaseException):
            return ("X", type(v).__name__)
        if depth < 3:
            if isinstance(v, (list, tuple)):
                return (type(v).__name__, tuple(self.abs_val(x, depth + 1) for x in v))
            if isinstance(v, (set, frozenset)):
                return ("set", tuple(sorted((self.abs_val(x, depth + 1) for x in v), key=repr)))
            if isinstance(v, dict):
                return (
                    "dict",
                    tuple(
                        sorted(
                            ((self.abs_val(k, depth + 1), self.abs_val(x, depth + 1)) for k, x in v.items()),
                            key=repr,
                        ),
                    ),
                )
        return type(v).__name__

    def frame_chain(self, coro: Any, leaf: Any) -> Tuple[Any, ...]:
        out: List[Any] = []
        obj: Any = coro
        hops = 0
        while obj is not None and hops < 64:
            hops += 1
            frame, nxt = _frame_of(obj)
            if frame is None:
                if isinstance(obj, asyncio.Future):
                    out.append(("await", self.abs_val(obj)))
                    return tuple(out)
                r = _resolve_opaque(obj)
                if r is None:
                    out.append(("opaque", type(obj).__name__))
                    break
                obj = r
                continue
            loc = frame.f_locals
            out.append(
                (
                    frame.f_code.co_qualname,
                    frame.f_lasti,
                    tuple(
                        (k, self.abs_val(loc[k], 1))
                        for k in sorted(loc)
                        if k != "__class__"
                        and k not in self.ignore_locals
                        and k not in self.ignore_locals_in.get(frame.f_code.co_name, ())
                    ),
                ),
            )
            obj = nxt
        if leaf is not None:
            out.append(("await", self.abs_val(leaf)))
        return tuple(out)

    def fingerprint(self) -> Any:
        tasks = []
        for t in asyncio.all_tasks(self.loop):
            if t.done():
                continue
            tasks.append((repr(self.name_of(t)), self.frame_chain(t.get_coro(), t._fut_waiter), t._must_cancel))
        tasks.sort(key=lambda x: repr(x))
        gates = tuple((repr(l), f.done(), f.cancelled() if f.done() else bool(f._callbacks)) for l, f in self.gates.items())
        now = self.loop._vt_us
        timers = tuple(
            sorted(
                (round(h._when * 1_000_000) - now, repr(self.timer_label(h)))
                for h in self.loop.pending_timers()
            ),
        )
        return (tuple(tasks), tuple(sorted(gates)), timers, self.monitor_state(), self.terminal())

    # ---- teardown ---------------------------------------------------------------------------
    def teardown(self) -> None:
        if self.closed:
            return
        self.closed = True
        self.muted = True
        loop = self.loop
        try:
            for _ in range(4):
                live = [t for t in asyncio.all_tasks(loop) if not t.done()]
                if not live:
                    break
                for t in live:
                    t.cancel()
                try:
                    loop.run_to_quiescence()
                except Livelock:
                    break
            for t in asyncio.all_tasks(loop):
                t._log_destroy_pending = False
            for h in list(loop._scheduled):
                h.cancel()
            loop._scheduled.clear()
            loop._ready.clear()
        finally:
            self.extra_teardown()
            events._set_running_loop(None)
            try:
                loop.close()
            except Exception:
                pass

    def extra_teardown(self) -> None:
        pass


# --------------------------------------------------------------------------- stepping + exploration


def apply_step(world: World, step: Any) -> None:
    """step = ('e', ev) | ('c', ev1, g, ev2, adv_us).

    A compound step injects ev2 after g generations of ev1's consequences (both events
    reach the loop in overlapping iterations). If ev2 is a timer that is not yet due,
    ev1 must be an untimed event and the clock is first advanced by adv_us to that
    timer's deadline (nothing else is scheduled before it): ev1 arrives just as the
    timer expires. A timer never follows another timer's consequences early.
    """
    world.activate()
    if step[0] == "e":
        world.fire(_t(step[1]))
        world.loop.run_to_quiescence()
    else:
        adv = step[4] if len(step) > 4 else 0
        if adv:
            world.loop._vt_us += adv
        world.fire(_t(step[1]))
        for _ in range(step[2]):
            if not world.loop._ready:
                raise HarnessError(f"compound step {step!r}: loop quiescent before generation bound")
            world.loop.run_generation()
        ev2 = _t(step[3])
        if ev2 not in world.enabled():
            raise HarnessError(f"compound step {step!r}: second event not enabled on replay")
        world.fire(ev2)
        world.loop.run_to_quiescence()
    world.after_step()


def _t(x: Any) -> Any:
    """JSON round-trip turns tuples into lists; normalise back (recursively)."""
    if isinstance(x, list):
        return tuple(_t(y) for y in x)
    if isinstance(x, tuple):
        return tuple(_t(y) for y in x)
    return x


def build(make_world: Callable[[], World], history: List[Any]) -> World:
    w = make_world()
    for step in history:
        apply_step(w, step)
    return w


class ExploreResult:
    def __init__(self) -> None:
        self.states = 0
        self.transitions = 0
        self.executions = 0
        self.terminals = 0
        self.max_depth = 0
        self.capped = False
        self.fingerprints: set = set()
        self.violations: Dict[str, Tuple[str, List[Any]]] = {}
        self.terminal_outcomes: set = set()
        self.maxima: Dict[str, int] = {}
        self.sample: Any = None  # (history, event log) of the deepest state visited


def explore(
    make_world: Callable[[], World],
    level: int = 0,
    max_states: int = 200000,
    merge: bool = True,
    max_depth: int = 400,
    on_state: Optional[Callable[[World, List[Any]], None]] = None,
    gc_every: int = 400,
    stop_prefix: Optional[str] = None,
    time_budget: Optional[float] = None,
) -> ExploreResult:
    """Depth-first exploration of all event orderings from the initial state.

    level = number of simultaneity deviations (compound steps) allowed per path.
    merge=False gives the stateless search (every path, no state matching).
    Violations are collected from world.violations after every step and from
    world.check_quiescent()/check_terminal().
    """
    res = ExploreResult()
    seen: Dict[Any, Any] = {}
    gc_was = gc.isenabled()
    gc.disable()
    built = 0

    def collect(w: World, hist: List[Any]) -> None:
        for key, msg in w.violations:
            if key not in res.violations or len(hist) < len(res.violations[key][1]):
                res.violations[key] = (msg, list(hist))
        w.violations.clear()

    def new_world(hist: List[Any]) -> World:
        nonlocal built
        built += 1
        res.executions += 1
        if built % gc_every == 0:
            gc.collect()
        w = make_world()
        for i, step in enumerate(hist):
            apply_step(w, step)
            w.violations.clear()  # already reported when the prefix was first explored
        return w

    try:
        root = new_world([])
        stack: List[Tuple[World, List[Any], int]] = []

        def visit(w: World, hist: List[Any], dev: int) -> Optional[List[Any]]:
            """Register state; returns its menu if it is new (must be expanded)."""
            w.activate()
            collect(w, hist)
            w.check_quiescent()
            collect(w, hist)
            fp = w.fingerprint()
            menu = w.enabled()
            key = (fp, dev) if level else fp
            if res.sample is None or len(hist) > len(res.sample[0]):
                res.sample = (list(hist), [tuple(e) for e in w.log][-40:])
            res.max_depth = max(res.max_depth, len(hist))
            for mk_, mv_ in w.metrics().items():
                if mv_ > res.maxima.get(mk_, -1):
                    res.maxima[mk_] = mv_
            if merge:
                if key in seen:
                    if seen[key] != menu:
                        raise HarnessError(
                            f"fingerprint collision: same fingerprint, different menus {seen[key]!r} vs {menu!r} after {hist!r}",
                        )
                    return None
                seen[key] = menu
            res.fingerprints.add(fp)
            res.states += 1
            if on_state is not None:
                on_state(w, hist)
            if not menu:
                res.terminals += 1
                w.check_terminal()
                collect(w, hist)
                for mk_, mv_ in w.metrics().items():
                    if mv_ > res.maxima.get(mk_, -1):
                        res.maxima[mk_] = mv_
                res.terminal_outcomes.add(w.outcome())
                return None
            if res.states >= max_states or len(hist) >= max_depth:
                res.capped = True
                return None
            return menu

        menu0 = visit(root, [], 0)
        if menu0 is None:
            root.teardown()
            return res
        # explicit DFS stack of (history, dev, menu); worlds are rebuilt by replay,
        # except that the last child of a node reuses the node's own world.
        work: List[Tuple[List[Any], int, List[Any], Optional[World]]] = [([], 0, menu0, root)]
        import time as _time

        t_start = _time.process_time()  # CPU time of this worker: independent of how loaded the machine is

        def should_stop() -> bool:
            # a scenario that already produced a violation of the property under check has
            # failed; a time budget that runs out is reported as a cap (never as coverage)
            if stop_prefix and any(k.startswith(stop_prefix) for k in res.violations):
                return True
            if time_budget is not None and _time.process_time() - t_start > time_budget:
                res.capped = True
                return True
            return False

        while work:
            if should_stop():
                for (_h, _d, _m, _w) in work:
                    if _w is not None:
                        _w.teardown()
                break
            hist, dev, menu, w_here = work.pop()
            steps: List[Any] = [("e", ev) for ev in menu]
            if dev < level:
                # probe each first event for the generation count and mid-point menus
                first_timer = next((e for e in menu if e[0] == "timer"), None)
                for ev1 in menu:
                    advs = [0]
                    if ev1[0] != "timer" and first_timer is not None and first_timer[1] > 0:
                        advs.append(first_timer[1])
                    for adv in advs:
                        pw = new_world(hist)
                        pw.muted = True
                        pw.activate()
                        found: List[Any] = []
                        try:
                            pw.loop._vt_us += adv
                            pw.fire(ev1)
                            g = 0
                            while True:
                                for ev2 in pw.enabled():
                                    if ev2 == ev1:
                                        continue
                                    if ev2[0] == "timer":
                                        # only timers due at this very instant may join the iteration
                                        if ev2[1] != 0:
                                            continue
                                    elif adv:
                                        continue  # the advanced probe only looks for the expiring timer
                                    found.append(("c", ev1, g, ev2, adv))
                                if not pw.loop._ready:
                                    break
                                pw.loop.run_generation()
                                g += 1
                                if g > 200:
                                    break
                            # the last g (quiescent) equals the sequential order e1;e2 -> drop it
                            steps.extend(s_ for s_ in found if s_[2] != g)
                        finally:
                            pw.teardown()
            n = len(steps)
            for i, step in enumerate(steps):
                if i == n - 1 and w_here is not None:
                    w = w_here
                    w_here = None
                else:
                    w = new_world(hist)
                apply_step(w, step)
                res.transitions += 1
                nh = hist + [step]
                ndev = dev + (1 if step[0] == "c" else 0)
                m = visit(w, nh, ndev)
                if m is None:
                    w.teardown()
                else:
                    work.append((nh, ndev, m, w))
            if w_here is not None:
                w_here.teardown()
        return res
    finally:
        events._set_running_loop(None)
        if gc_was:
            gc.enable()
        gc.collect()


def run_sync(coro: Any, loop: Optional[VLoop] = None) -> Any:
    """Run a coroutine that needs no external event to completion on a VLoop.

    Timers (asyncio.sleep etc.) are fired in deadline order. Returns the result or
    raises the coroutine's exception.
    """
    own = loop is None
    loop = loop or VLoop()
    events._set_running_loop(None)
    events._set_running_loop(loop)
    try:
        task = loop.create_task(coro)
        for _ in range(100000):
            loop.run_to_quiescence()
            if task.done():
                break
            timers = loop.pending_timers()
            if not timers:
                raise HarnessError("run_sync: coroutine is blocked on something nobody will resolve")
            loop.fire_timer(timers[0])
        return task.result()
    finally:
        events._set_running_loop(None)
        if own:
            loop.close()
