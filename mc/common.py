"""Shared machinery: shard pool, result aggregation, evidence, known findings.

Every property driver (mc/props/cXX.py) exposes

    shards(tier, seed) -> list of picklable shard descriptors
    run_shard(shard)   -> dict produced by Acc.as_dict()
    META               -> dict(rule=..., assumptions=[...], engine=...)

and the runner (mc/run.py) maps run_shard over a process pool, merges the
dictionaries, classifies violations against KNOWN_FINDINGS.txt, writes
/verif/evidence/<id>.json and prints the VIOLATION / KNOWN-FINDING lines.
"""
from __future__ import annotations

import json
import os
import re
import sys
import time
from typing import Any, Dict, Iterable, List, Optional

VERIF_DIR = os.path.dirname(os.path.dirname(os.path.abspath(__file__)))
EVIDENCE_DIR = os.environ.get("VERIF_EVIDENCE_DIR") or os.path.join(VERIF_DIR, "evidence")
REPLAY_DIR = (
    os.path.join(os.environ["VERIF_EVIDENCE_DIR"], "replays")
    if os.environ.get("VERIF_EVIDENCE_DIR")
    else os.path.join(VERIF_DIR, "replays")
)
KNOWN_FINDINGS = os.path.join(VERIF_DIR, "KNOWN_FINDINGS.txt")
MAX_SAMPLES = 6
MAX_VIOLATION_KEYS = 40


def repo_path() -> str:
    return os.environ.get("VERIF_REPO", "/repo")


def setup_repo_path() -> None:
    """Make `import taskiq` resolve to the tree under test (default /repo)."""
    p = repo_path()
    if sys.path[0] != p:
        sys.path.insert(0, p)
    os.environ.setdefault("TASKIQ_VERIF", "1")


def jsonable(x: Any, depth: int = 0) -> Any:
    """Best-effort conversion of samples / scenarios to JSON."""
    if depth > 8:
        return repr(x)
    if isinstance(x, (str, int, bool)) or x is None:
        return x
    if isinstance(x, float):
        if x != x or x in (float("inf"), float("-inf")):
            return repr(x)
        return x
    if isinstance(x, bytes):
        return "b64:" + __import__("base64").b64encode(x).decode()
    if isinstance(x, dict):
        return {str(k): jsonable(v, depth + 1) for k, v in x.items()}
    if isinstance(x, (list, tuple)):
        return [jsonable(v, depth + 1) for v in x]
    if isinstance(x, (set, frozenset)):
        return sorted((jsonable(v, depth + 1) for v in x), key=repr)
    return repr(x)


class Acc:
    """Accumulator for one shard (and, merged, for the whole run)."""

    def __init__(self) -> None:
        self.states = 0
        self.transitions = 0
        self.paths = 0  # executions of the implementation (replays count)
        self.evaluations = 0
        self.outcomes: set = set()  # distinct non-trivial outcome classes
        self.samples: List[Any] = []
        self.violations: Dict[str, Dict[str, Any]] = {}
        self.violation_count = 0
        self.counters: Dict[str, int] = {}
        self.caps: List[str] = []
        self.notes: List[str] = []
        self.max: Dict[str, int] = {}

    # -- recording -------------------------------------------------------
    def count(self, name: str, n: int = 1) -> None:
        self.counters[name] = self.counters.get(name, 0) + n

    def maximum(self, name: str, v: int) -> None:
        if v > self.max.get(name, -(10**18)):
            self.max[name] = v

    def outcome(self, o: Any) -> None:
        self.outcomes.add(o if isinstance(o, str) else repr(o))

    def sample(self, s: Any) -> None:
        if len(self.samples) < MAX_SAMPLES:
            self.samples.append(jsonable(s))

    def violation(self, key: str, message: str, replay: Any) -> None:
        """Record a violation; `key` is the classifier key (stable text)."""
        self.violation_count += 1
        if key in self.violations:
            self.violations[key]["count"] += 1
            return
        if len(self.violations) >= MAX_VIOLATION_KEYS:
            return
        self.violations[key] = {
            "key": key,
            "message": message,
            "replay": jsonable(replay),
            "count": 1,
        }

    def cap(self, what: str) -> None:
        if what not in self.caps:
            self.caps.append(what)

    # -- merging ---------------------------------------------------------
    def as_dict(self) -> Dict[str, Any]:
        return {
            "states": self.states,
            "transitions": self.transitions,
            "paths": self.paths,
            "evaluations": self.evaluations,
            "outcomes": sorted(self.outcomes, key=repr),
            "samples": self.samples,
            "violations": self.violations,
            "violation_count": self.violation_count,
            "counters": self.counters,
            "caps": self.caps,
            "notes": self.notes,
            "max": self.max,
        }

    def merge(self, d: Dict[str, Any]) -> None:
        self.states += d["states"]
        self.transitions += d["transitions"]
        self.paths += d["paths"]
        self.evaluations += d["evaluations"]
        self.outcomes.update(d["outcomes"])
        for s in d["samples"]:
            if len(self.samples) < MAX_SAMPLES:
                self.samples.append(s)
        for k, v in d["violations"].items():
            if k in self.violations:
                self.violations[k]["count"] += v["count"]
            elif len(self.violations) < MAX_VIOLATION_KEYS:
                self.violations[k] = v
        self.violation_count += d["violation_count"]
        for k, v in d["counters"].items():
            self.counters[k] = self.counters.get(k, 0) + v
        for c in d["caps"]:
            self.cap(c)
        for n in d["notes"]:
            if n not in self.notes and len(self.notes) < 20:
                self.notes.append(n)
        for k, v in d["max"].items():
            self.maximum(k, v)


# -- known findings -----------------------------------------------------------

_FINDING_RE = re.compile(r"^finding:\s+property=(\S+)\s+key=(\S+)\s+(.*)$")
_FIXED_RE = re.compile(r"^fixed:\s+property=(\S+)\s+(\S+)\s+(.*)$")


def load_known_findings() -> Dict[str, Dict[str, str]]:
    """Return {property: {key: text}} from the committed file (read only)."""
    out: Dict[str, Dict[str, str]] = {}
    if not os.path.exists(KNOWN_FINDINGS):
        return out
    with open(KNOWN_FINDINGS) as f:
        for line in f:
            m = _FINDING_RE.match(line.strip())
            if m:
                out.setdefault(m.group(1), {})[m.group(2)] = m.group(3)
    return out


def slug(s: str) -> str:
    return re.sub(r"[^A-Za-z0-9_.-]+", "_", s)[:80]


def finish(
    pid: str,
    tier: str,
    seed: int,
    acc: Acc,
    meta: Dict[str, Any],
    wall: float,
) -> int:
    """Write evidence, print verdict lines, return the exit status."""
    known = load_known_findings().get(pid, {})
    os.makedirs(EVIDENCE_DIR, exist_ok=True)
    new: List[Dict[str, Any]] = []
    listed: List[Dict[str, Any]] = []
    for key, v in sorted(acc.violations.items()):
        base = key.split("|", 1)[0]
        if base in known:
            listed.append(v)
        else:
            new.append(v)
    seen_known = set()
    for v in listed:
        base = v["key"].split("|", 1)[0]
        if base in seen_known:
            continue
        seen_known.add(base)
        print(f"KNOWN-FINDING: property={pid} {known[base]}")
    status = 0
    for v in new:
        d = os.path.join(REPLAY_DIR, pid)
        os.makedirs(d, exist_ok=True)
        path = os.path.join(d, slug(v["key"]) + ".json")
        with open(path, "w") as f:
            json.dump(
                {
                    "property": pid,
                    "key": v["key"],
                    "message": v["message"],
                    "replay": v["replay"],
                    "occurrences": v["count"],
                },
                f,
                indent=1,
                sort_keys=True,
            )
        print(f"VIOLATION property={pid} replay={path}")
        print(f"  {v['key']}: {v['message'][:600]}")
        status = 1
    exhaustive = not acc.caps
    states = acc.states
    transitions = acc.transitions
    graph = meta.get("kind", "graph") == "graph"
    coverage: Dict[str, Any] = {}
    if graph:
        coverage.update(
            {
                "states": states,
                "transitions": transitions,
                "traces_validated_against_impl": acc.paths,
            },
        )
    coverage.update({
        "evaluations": max(acc.evaluations, acc.paths),
        "distinct_nontrivial": len(acc.outcomes),
        "rule": meta.get("rule", ""),
        "samples": acc.samples,
        "exhaustive": exhaustive,
        "caps_hit": acc.caps,
        "counters": dict(sorted(acc.counters.items())),
        "max_observed": dict(sorted(acc.max.items())),
        "known_findings_seen": sorted(seen_known),
        "bounds": meta.get("bounds", {}).get(tier, meta.get("bounds", {})),
        "engine": meta.get("engine", ""),
        "notes": acc.notes,
    })
    ev = {
        "property_id": pid,
        "tier": tier,
        "seed": seed,
        "level": "model_checking",
        "coverage": coverage,
        "assumptions": meta.get("assumptions", []),
        "wall_s": round(wall, 2),
        "violations": len(new),
    }
    with open(os.path.join(EVIDENCE_DIR, f"{pid}.json"), "w") as f:
        json.dump(ev, f, indent=1, sort_keys=True)
        f.write("\n")
    # vacuity / cap guards: a broken harness must not look like a pass
    problems = []
    if graph and (states < 1 or transitions < 1):
        problems.append("no states/transitions explored")
    if not acc.samples:
        problems.append("no sample case recorded")
    if len(acc.outcomes) < 2:
        problems.append("fewer than two distinct outcomes (vacuous)")
    for name in meta.get("required_counters", []):
        if acc.counters.get(name, 0) <= 0:
            problems.append(f"antecedent counter {name} is zero (vacuous)")
    if acc.caps:
        problems.append("caps hit: " + "; ".join(acc.caps))
    print(
        f"[{pid}/{tier}] states={states} transitions={transitions} "
        f"impl_executions={acc.paths} evaluations={coverage['evaluations']} "
        f"outcomes={len(acc.outcomes)} violations(new)={len(new)} "
        f"known={len(seen_known)} exhaustive={exhaustive} wall={wall:.1f}s",
    )
    if problems and status == 0:
        for p in problems:
            print(f"HARNESS-PROBLEM property={pid} {p}")
        status = 2
    return status


def shuffled(items: Iterable[Any], seed: int) -> List[Any]:
    """Deterministic permutation of shard order (the only use of VERIF_SEED)."""
    import random

    lst = list(items)
    random.Random(seed).shuffle(lst)
    return lst
