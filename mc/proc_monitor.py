"""Monitors (oracles) for ProcessManager.start(): C17 and C18."""
from __future__ import annotations

import signal as real_signal
from typing import Any, Dict, List, Optional, Tuple


class Monitor:
    def __init__(self) -> None:
        self.env: Any = None
        self.violations: List[Tuple[str, str]] = []
        self.obligations: Dict[int, int] = {}  # slot -> tick at which it was observed dead
        self.budget = 0
        self.must_fail = False
        self.shutdown_seen = False
        self.expected_kills: Optional[List[Any]] = None
        self.kills: Dict[int, int] = {}
        self.starts_this_tick: Dict[int, int] = {}
        self.reload_all_this_tick = False
        self.reload_all_slots: set = set()
        self.reload_all_pending = 0
        self.allowed_starts: Dict[int, int] = {}
        self.after_fail_ops = 0
        self.facts: set = set()
        self.signals: List[List[Any]] = []  # [signal, tick delivered, handled?]
        self.reload_all_due: Dict[int, int] = {}  # slot -> tick in which a reload-all that covers it was handled

    def flag(self, key: str, msg: str) -> None:
        self.violations.append((key, msg))

    # ---- process events -------------------------------------------------------------
    def on_start(self, proc: Any, slot: int) -> None:
        env = self.env
        if not env.prepared:
            return
        others = [p for p in env.processes if p is not proc and env.slot_of(p.name) == slot and p.state in ("alive", "terminating")]
        if others:
            self.flag("C17:two-live-workers-in-slot", f"{proc!r} started while {others!r} of the same slot is still live")
        old = env.manager.workers[slot] if slot < len(env.manager.workers) else None
        if old is not None and old is not proc and old.state in ("zombie",) and not others:
            self.flag("C17:old-worker-not-waited-for", f"{proc!r} started before the previous occupant {old!r} was joined")
        self.obligations.pop(slot, None)
        self.reload_all_due.pop(slot, None)
        self.starts_this_tick[slot] = self.starts_this_tick.get(slot, 0) + 1
        if self.starts_this_tick[slot] > 1:
            self.flag("C18:slot-restarted-twice-in-one-tick", f"slot {slot} restarted {self.starts_this_tick[slot]} times in tick {env.tick_no}")
        if self.shutdown_seen:
            self.flag("C18:start-after-shutdown", f"{proc!r} started after the shutdown action was handled")
        if self.must_fail:
            self.flag("C18:start-after-budget-exhausted", f"{proc!r} started although the failure budget is exhausted")
        if self.allowed_starts.get(slot, 0) <= 0:
            self.flag("C18:unrequested-restart", f"{proc!r} started in tick {env.tick_no} without a restart action for slot {slot}")
        else:
            self.allowed_starts[slot] -= 1
        self.facts.add("restart")

    def on_scan(self, proc: Any, alive: bool) -> None:
        if not alive:
            slot = self.env.slot_of(proc.name)
            self.obligations.setdefault(slot, self.env.tick_no)
            self.facts.add("dead-observed")

    def on_death(self, proc: Any) -> None:
        """Ground truth, independent of what the manager looks at: the process occupying a slot has
        died in this tick (during the sleep, or right after being started). The end-of-tick scan of a
        correct manager sees it in the same tick; a manager that does not look still owes the replacement."""
        env = self.env
        slot = env.slot_of(proc.name)
        if slot < len(env.manager.workers) and env.manager.workers[slot] is proc:
            self.obligations.setdefault(slot, max(env.tick_no, 0))

    def on_tick_boundary(self) -> None:
        env = self.env
        if env.manager is None or not env.prepared or env.tick_no < 0:
            if env.manager is not None and len(env.manager.workers) != env.nworkers:
                self.flag("C17:slot-count-changed", f"{len(env.manager.workers)} worker slots, configured {env.nworkers}")
            if env.manager is not None and env.tick_no < 0:
                # first supervision tick: every slot holds a process that has been started
                idle = [p for p in env.manager.workers if p.state == "new"]
                if idle:
                    self.flag("C17:slot-without-started-worker", f"after start-up the slots of {idle!r} hold processes that were never started")
            return
        if len(env.manager.workers) != env.nworkers:
            self.flag("C17:slot-count-changed", f"{len(env.manager.workers)} worker slots, configured {env.nworkers}")
        names = sorted(p.name for p in env.manager.workers)
        if names != sorted(f"worker-{i}" for i in range(env.nworkers)):
            self.flag("C17:slot-names-changed", f"worker names {names}")
        for p in env.pending_deaths:  # workers that died right after being started in this tick
            self.on_death(p)
        env.pending_deaths = []
        for slot, t in list(self.obligations.items()):
            if t <= env.tick_no - 1:
                self.flag(
                    "C17:dead-worker-not-replaced",
                    f"slot {slot} dead since tick {t}, still not replaced at the end of tick {env.tick_no}",
                )
        # restarts requested by a reload-all: every slot whose reload-all restart was handled
        # (dequeued) in this tick has been restarted exactly once in this tick
        missing = [s for s in sorted(self.reload_all_slots) if self.starts_this_tick.get(s, 0) != 1]
        if missing and not self.must_fail and not self.shutdown_seen:
            self.flag("C18:reload-all-incomplete", f"reload-all restarts for slots {sorted(self.reload_all_slots)} handled in tick {env.tick_no} but slots {missing} were not restarted exactly once ({self.starts_this_tick})")
        self.reload_all_slots = set()
        late = sorted(s_ for s_, t in self.reload_all_due.items() if t <= env.tick_no - 1)
        if late and not self.must_fail and not self.shutdown_seen:
            self.flag("C18:reload-all-incomplete", f"a reload-all was handled in tick {min(self.reload_all_due[s_] for s_ in late)} but slots {late} have not been restarted by the end of tick {env.tick_no}")
            for s_ in late:
                self.reload_all_due.pop(s_, None)
        if self.must_fail:
            self.flag("C18:budget-exhausted-but-still-running", f"failure budget {env.max_fails} reached ({self.budget}) but start() did not return")
        if self.shutdown_seen:
            self.flag("C18:shutdown-handled-but-still-running", "shutdown action dequeued but start() did not return")
        for sg in self.signals:
            if not sg[2] and sg[1] <= env.tick_no - 1 and not self.must_fail and not self.shutdown_seen:
                kind = "shutdown" if sg[0] in ("INT", "TERM") else "reload"
                self.flag(
                    f"C18:{kind}-signal-lost",
                    f"{sg[0]} delivered in tick {sg[1]} has not been handled by the end of tick {env.tick_no} (manager still running)",
                )
                sg[2] = True
        self.starts_this_tick = {}
        self.allowed_starts = {}
        self.reload_all_this_tick = False

    # ---- queue events ------------------------------------------------------------------
    def on_get(self, item: Any, origin: str) -> None:
        env = self.env
        name = type(item).__name__
        if self.must_fail or self.shutdown_seen:
            self.flag("C18:action-handled-after-exit-condition", f"{name} dequeued after the exit condition was met")
        if name == "ReloadOneAction":
            slot = item.worker_num
            if origin == "scan":
                self.facts.add("failure-restart")
                if env.max_fails >= 1:
                    self.budget += 1
                    if self.budget >= env.max_fails:
                        self.must_fail = True
                        self.facts.add("budget-exhausted")
                        return
            else:
                self.facts.add("reload-all-restart")
                self.reload_all_slots.add(slot)
            if self.starts_this_tick.get(slot, 0) == 0 and self.allowed_starts.get(slot, 0) == 0:
                self.allowed_starts[slot] = 1
        elif name == "ReloadAllAction":
            self.reload_all_this_tick = True
            self.facts.add("reload-all")
            # whatever the manager does with it internally: every slot not restarted earlier in this tick is
            # now owed one restart (by the end of the next tick at the latest - Queue.empty() may lag)
            for s_ in range(env.nworkers):
                if self.starts_this_tick.get(s_, 0) == 0:
                    self.reload_all_due.setdefault(s_, env.tick_no)
            for sg in self.signals:
                if sg[0] in ("HUP", "FILE") and not sg[2]:
                    sg[2] = True
                    break
        elif name == "ShutdownAction":
            for sg in self.signals:
                if sg[0] in ("INT", "TERM") and not sg[2]:
                    sg[2] = True
                    break
            self.shutdown_seen = True
            self.facts.add("shutdown")
            self.expected_kills = [p for p in env.manager.workers if p.state in ("alive", "terminating")]

    # ---- os events ------------------------------------------------------------------------
    def on_kill(self, proc: Any, pid: int, sig: int) -> None:
        env = self.env
        self.kills[pid] = self.kills.get(pid, 0) + 1
        if int(sig) != int(real_signal.SIGINT):
            self.flag("C18:wrong-signal", f"signal {sig} sent to pid {pid}")
        if not self.shutdown_seen:
            self.flag("C18:signal-without-shutdown", f"pid {pid} signalled although no shutdown was requested")
        if proc is None:
            self.flag("C18:foreign-pid-signalled", f"pid {pid} was never a worker of this manager")
        elif proc not in env.manager.workers:
            self.flag("C18:non-current-worker-signalled", f"{proc!r} is not a current worker")
        elif proc.state == "reaped":
            self.flag(
                "C18:D9-dead-worker-signalled-on-shutdown",
                f"shutdown signalled {proc!r}, which is dead and already reaped (its pid may be gone or recycled)",
            )
        elif proc.state == "zombie":
            pass  # dead but not yet reaped: harmless, the pid still belongs to the child
        if self.kills[pid] > 1:
            self.flag("C18:worker-signalled-twice", f"pid {pid} signalled {self.kills[pid]} times")

    def on_signal(self, sig: str) -> None:
        # a delivered signal is a request: shutdown / reload-all must be handled by the end of the next tick
        self.signals.append([sig, self.env.tick_no, False])

    def on_return(self, rv: Any) -> None:
        env = self.env
        if not self.must_fail and not self.shutdown_seen:
            self.flag("C17:supervision-stopped-without-cause", f"start() returned {rv!r} although neither the failure budget ({self.budget} of {env.max_fails}) was exhausted nor a shutdown was handled: dead workers are no longer replaced")
        if rv == -1 and rv is not None:
            if not self.must_fail:
                self.flag("C18:failure-status-without-exhausted-budget", f"start() returned -1 with {self.budget} handled failure restarts, max_fails={env.max_fails}")
        elif rv is None:
            if self.must_fail:
                self.flag("C18:budget-exhausted-wrong-status", "budget exhausted but start() returned None")
            if not self.shutdown_seen:
                self.flag("C18:returned-without-shutdown", "start() returned None although no shutdown action was handled")
            else:
                for p in self.expected_kills or []:
                    if self.kills.get(p.pid, 0) != 1:
                        self.flag("C18:live-worker-not-signalled", f"{p!r} received {self.kills.get(p.pid, 0)} SIGINT on shutdown")
        else:
            self.flag("C18:unknown-status", f"start() returned {rv!r}")

    def on_raise(self, exc: BaseException) -> None:
        self.flag("C17:supervision-stopped-without-cause", f"start() raised {type(exc).__name__}: workers are no longer supervised")
        self._on_raise_c18(exc)

    def _on_raise_c18(self, exc: BaseException) -> None:
        if isinstance(exc, ProcessLookupError) and self.shutdown_seen:
            self.flag("C18:D9-dead-worker-signalled-on-shutdown", f"start() crashed with {type(exc).__name__} while signalling workers on shutdown")
        else:
            self.flag("C18:manager-crashed", f"start() raised {type(exc).__name__}: {exc}")

    def state(self) -> Any:
        t = self.env.tick_no
        return (
            tuple(sorted((s, t - k) for s, k in self.obligations.items())),
            self.budget,
            self.must_fail,
            self.shutdown_seen,
            tuple((sg[0], t - sg[1]) for sg in self.signals if not sg[2]),
            tuple(sorted((s, t - k) for s, k in self.reload_all_due.items())),
        )
