"""Scenario family "a fault in one message while another message is in flight" (E1, RecvWorld).

The per-property scenario sets vary faults one message at a time and concurrency with healthy
messages. This family crosses the two: message X suffers exactly one fault from the alphabet
below while message Y - healthy, with a suspension point before its function (gated pre_execute
hook), inside it (gated body) and after it (gated ack) - is in flight, under a stop request that
may arrive at any point (so the fault can also land in the shutdown drain). The explorer
supplies every interleaving; the properties supply their own oracles.

Fault alphabet (kind, detail):
  hook   (pre_execute|post_execute|post_save|on_error) x (raise|cancel|timeout)   the hook of X raises
         RuntimeError / CancelledError / TimeoutError
  ack    (sync|async) x (raise|cancel|timeout)     X's ack callable fails (the async one after a gate)
  save   raise|cancel|timeout|once                 the result backend fails for X (once: only the first call)
  body   raise|raise-cancelled|timeout|noresult    outcome of X's task function
  junk   malformed|unknown                         X is not a valid task message
  stream -                                         the broker stream raises after X (healthy) and Y were delivered
"""
from __future__ import annotations

from typing import Any, Dict, Iterable, List, Optional, Tuple

HOOKS = ("pre_execute", "post_execute", "post_save", "on_error")
EXCS = ("raise", "cancel", "timeout")


def faults(tier: str) -> List[Tuple[str, Any]]:
    out: List[Tuple[str, Any]] = []
    for h in HOOKS:
        for e in EXCS:
            out.append(("hook", (h, e)))
    for mode in ("sync", "async"):
        for e in EXCS:
            out.append(("ack", (mode, e)))
    for e in ("raise", "cancel", "timeout", "once"):
        out.append(("save", e))
    for b in ("raise", "raise-cancelled", "timeout", "noresult"):
        out.append(("body", b))
    out.append(("junk", "malformed"))
    out.append(("junk", "unknown"))
    out.append(("stream", None))
    return out


def scenario(
    fault: Tuple[str, Any],
    *,
    ack_type: Optional[str] = None,
    x_first: bool = True,
    y: Optional[Dict[str, Any]] = None,
    a: int = 2,
    p: int = 0,
    stop: bool = True,
    w: Optional[float] = None,
    n: Optional[int] = None,
    level: int = 0,
    gate_pre: bool = True,
    backlog: int = 0,
) -> Dict[str, Any]:
    kind, det = fault
    x: Dict[str, Any] = {"ack": "async", "gates": ["ack"]}
    ym: Dict[str, Any] = {"ack": "async", "gates": ["ack"]}
    if y:
        ym.update(y)
    hooks: Dict[str, str] = {"pre_execute": "gated"} if gate_pre else {}
    mw: Dict[str, Any] = {"hooks": hooks, "fail": {}}
    xi = 0 if x_first else 1
    extra: List[Dict[str, Any]] = []
    if kind == "hook":
        h, e = det
        hooks.setdefault(h, "sync")
        mw["fail"] = {h: [xi]}
        mw["fail_exc"] = e
        if h == "on_error":
            x["outcome"] = "raise"
    elif kind == "ack":
        mode, e = det
        x["ack"] = mode
        x["gates"] = ["ack"] if mode == "async" else []
        x["ack_fails"] = e
    elif kind == "save":
        x["save_fails"] = True if det == "raise" else det
        x["gates"] = ["save", "ack"]
    elif kind == "body":
        if det == "raise":
            x["outcome"] = "raise"
        elif det == "raise-cancelled":
            x.update(outcome="raise", exc="CancelledError")
        elif det == "timeout":
            x.update(outcome="never", timeout=0.2)
        else:
            x["outcome"] = "noresult"
    elif kind == "junk":
        x = {"kind": det}
    elif kind == "stream":
        extra = [{"kind": "stream_error"}]
    msgs = [x, ym] if x_first else [ym, x]
    msgs += [{} for _ in range(backlog)]  # further healthy messages the broker has ready
    sc: Dict[str, Any] = {
        "A": a, "P": p, "N": n, "W": w, "stream": "infinite", "stop": stop, "level": level,
        "msgs": msgs + extra, "mws": [mw] if hooks else [], "fault": [kind, det], "x": xi, "y": 1 - xi,
    }
    if ack_type:
        sc["ack_type"] = ack_type
    return sc


def family(
    tier: str,
    *,
    ack_types: Iterable[Optional[str]] = (None,),
    orders: Iterable[bool] = (True,),
    ys: Iterable[Optional[Dict[str, Any]]] = (None,),
    only: Optional[Iterable[str]] = None,
    **kw: Any,
) -> List[Dict[str, Any]]:
    out = []
    for f in faults(tier):
        if only is not None and f[0] not in only:
            continue
        for at in ack_types:
            for o in orders:
                for y in ys:
                    out.append(scenario(f, ack_type=at, x_first=o, y=y, **kw))
    return out


def repeats(
    tier: str,
    *,
    ks: Iterable[int] = (3, 4, 5),
    only: Optional[Iterable[str]] = None,
    ack_type: Optional[str] = None,
    a: int = 1,
    p: int = 1,
    tail: int = 1,
    overlap: bool = False,
) -> List[Dict[str, Any]]:
    """The same fault k times in a row on one worker, then `tail` healthy messages: whatever a counter, a
    pool, a budget or a throttle inside the worker does at the k-th occurrence. Sequential by default
    (A=1, nothing gated: one path per scenario); overlap=True gates the bodies so that the k faulty
    messages are processed A at a time in every order."""
    out = []
    for f in faults(tier):
        kind, det = f
        if kind == "stream" or (only is not None and kind not in only):
            continue
        for k in ks:
            base = scenario(f, ack_type=ack_type, a=a, p=p, stop=False, gate_pre=False)
            x = dict(base["msgs"][0])
            x["gates"] = []
            x["body"] = "gated" if overlap else "immediate"
            if x.get("outcome") == "never":
                x["body"] = "gated"
            y = {"ack": "sync", "gates": [], "body": "gated" if overlap else "immediate"}
            mws = base["mws"]
            if kind == "hook":
                h = det[0]
                mws = [{"hooks": {h: "sync"}, "fail": {h: list(range(k))}, "fail_exc": det[1]}]
            sc = dict(base)
            sc.update({"msgs": [dict(x) for _ in range(k)] + [dict(y) for _ in range(tail)], "mws": mws, "stream": "finite",
                       "x": list(range(k)), "y": k, "repeat": k})
            out.append(sc)
    return out
