"""E2: tick-history explorer for ProcessManager.start() over a fake OS.

The names `Process, Event, Queue, current_process, sleep, os, signal` inside
taskiq.cli.worker.process_manager are replaced (harness-side) by fakes; one history
= list of per-tick environment choices; every history prefix is run on a fresh
manager; BFS with de-duplication on the canonical state at the tick boundary.

Tick choice (dict):
  die    slots whose current worker dies during the sleep (observed as a zombie)
  sig    None | 'HUP' | 'INT' | 'TERM' | 'FILE'   delivered during the sleep
  crash  slots whose next start() yields a worker that dies before its start-up wait
  late   None | sig   delivered between the drain and the liveness scan (deviation)
  lag    int | None   the k-th Queue.empty() call of this tick answers True although an item
                      has just been put (documented multiprocessing.Queue behaviour; deviation)
"""
from __future__ import annotations

import itertools
import signal as real_signal
import sys
from typing import Any, Callable, Dict, List, Optional, Tuple


class HistoryEnd(BaseException):
    """Raised by the fake sleep() when the scripted history is exhausted."""


class Hang(BaseException):
    """The manager would block forever (join on a process nobody terminated)."""


class FakeProcess:
    def __init__(self, env: "Env", target: Any = None, kwargs: Any = None, name: str = "", daemon: bool = False) -> None:
        self.env = env
        self.name = name
        self.state = "new"  # new | alive | terminating | zombie | reaped
        self.pid: Optional[int] = None
        self.was_terminated = False
        self.serial = len(env.processes)
        env.processes.append(self)

    def __repr__(self) -> str:
        return f"<P{self.serial} {self.name} pid={self.pid} {self.state}>"

    def start(self) -> None:
        env = self.env
        assert self.state == "new"
        slot = env.slot_of(self.name)
        env.pid_counter += 1
        self.pid = env.pid_counter
        self.state = "alive"
        env.trace("start", self)
        env.monitor.on_start(self, slot)
        if slot in env.tick.get("crash", ()) and env.prepared:
            self.state = "zombie"
            env.pending_deaths.append(self)

    def is_alive(self) -> bool:
        caller = sys._getframe(1).f_code.co_name
        if self.state == "zombie":
            self.state = "reaped"  # waitpid() reaps it
        alive = self.state in ("alive", "terminating")
        self.env.trace("is_alive", self, caller, alive)
        if caller == "start":
            self.env.monitor.on_scan(self, alive)
        return alive

    @property
    def exitcode(self) -> Optional[int]:
        """None while running; afterwards the exit status of the worker: 0 for a worker that exited on its own
        in configurations with opts['exit0'] (it served its max-tasks quota, it shut down cleanly), -15 after
        terminate(), 1 otherwise."""
        if self.state in ("new", "alive", "terminating"):
            return None
        if self.was_terminated:
            return -15
        return 0 if self.env.opts.get("exit0") else 1

    def terminate(self) -> None:
        self.env.trace("terminate", self)
        if self.state == "alive":
            self.state = "terminating"
            self.was_terminated = True

    def join(self, timeout: Any = None) -> None:
        self.env.trace("join", self, timeout)
        if timeout is not None and self.state == "terminating":
            # worst-case environment: a worker that takes longer to exit than any finite timeout
            return
        if self.state in ("terminating", "zombie"):
            self.state = "reaped"
        elif self.state == "alive":
            self.env.monitor.flag("C17:join-would-hang", f"join() on {self!r} which nobody terminated")
            raise Hang()


class FakeEvent:
    def wait(self, timeout: Any = None) -> bool:
        return True

    def set(self) -> None:
        pass


class FakeQueue:
    """FIFO with the documented multiprocessing.Queue lag: an item that has just been put()
    is handed to a feeder thread and reaches the pipe a moment later, so empty() may still
    answer True right after put() - but only while *nothing* is in the pipe yet, i.e. while
    every queued item is still un-flushed. A sleep flushes everything."""

    def __init__(self, env: "Env") -> None:
        self.env = env
        self.items: List[List[Any]] = []  # [item, origin, flushed]
        self.empty_calls = 0

    def flush(self) -> None:
        for it in self.items:
            it[2] = True

    def put(self, item: Any) -> None:
        origin = "other"
        f = sys._getframe(1)
        for _ in range(4):
            if f is None:
                break
            n = f.f_code.co_name
            if n == "start":
                origin = "scan"
                break
            if n == "handle":
                origin = "reload_all"
                break
            if n == "_signal_handler" or n == "schedule_workers_reload":
                origin = "signal"
                break
            f = f.f_back
        self.items.append([item, origin, False])
        self.env.trace("put", type(item).__name__, getattr(item, "worker_num", None), origin)

    def empty(self) -> bool:
        self.env.op()
        k = self.empty_calls
        self.empty_calls += 1
        lag = self.env.tick.get("lag")
        if lag is not None and lag == k and self.items and not any(it[2] for it in self.items):
            self.env.trace("empty-lag")
            self.env.on_drain_end()
            return True
        e = not self.items
        if e:
            self.env.on_drain_end()
        return e

    def get(self) -> Any:
        item, origin, _ = self.items.pop(0)
        self.env.trace("get", type(item).__name__, getattr(item, "worker_num", None), origin)
        self.env.monitor.on_get(item, origin)
        return item


class FakeOS:
    def __init__(self, env: "Env") -> None:
        self.env = env

    def kill(self, pid: int, sig: int) -> None:
        env = self.env
        proc = next((p for p in env.processes if p.pid == pid), None)
        env.trace("kill", pid, int(sig))
        env.monitor.on_kill(proc, pid, sig)
        if proc is None or proc.state == "reaped":
            raise ProcessLookupError(3, "No such process")


class FakeSignal:
    SIGINT = real_signal.SIGINT
    SIGTERM = real_signal.SIGTERM
    SIGHUP = real_signal.SIGHUP

    def __init__(self, env: "Env") -> None:
        self.env = env

    def signal(self, signum: int, handler: Any) -> None:
        self.env.handlers[int(signum)] = handler


class _Main:
    name = "MainProcess"


class Env:
    def __init__(self, workers: int, max_fails: int, history: List[Dict[str, Any]], monitor: Any, opts: Optional[Dict[str, Any]] = None) -> None:
        self.opts: Dict[str, Any] = dict(opts or {})
        self.nworkers = workers
        self.max_fails = max_fails
        self.history = history
        self.tick_no = -1
        self.tick: Dict[str, Any] = {}
        self.processes: List[FakeProcess] = []
        self.pid_counter = 100
        self.handlers: Dict[int, Any] = {}
        self.events: List[Tuple[Any, ...]] = []
        self.monitor = monitor
        self.queue: Optional[FakeQueue] = None
        self.manager: Any = None
        self.prepared = False
        self.returned: Any = "running"
        self.late_done = False
        self.ops_since_sleep = 0
        self.pending_deaths: List[FakeProcess] = []
        monitor.env = self

    def trace(self, *ev: Any) -> None:
        self.events.append((self.tick_no,) + tuple(repr(e) if isinstance(e, FakeProcess) else e for e in ev))
        self.op()

    def op(self) -> None:
        # a supervision loop that never reaches sleep() would spin for ever (and burn a core in real life)
        self.ops_since_sleep += 1
        if self.ops_since_sleep > 20000:
            for prop in ("C17", "C18"):
                self.monitor.flag(f"{prop}:supervision-loop-never-sleeps", f"more than 20000 queue/process operations in tick {self.tick_no} without reaching sleep()")
            raise Hang()

    def slot_of(self, name: str) -> int:
        return int(name.rsplit("-", 1)[1])

    def deliver(self, sig: str) -> None:
        import taskiq.cli.worker.process_manager as pm

        self.trace("signal", sig)
        self.monitor.on_signal(sig)
        if sig == "FILE":
            pm.schedule_workers_reload(self.queue)
        else:
            num = {"HUP": real_signal.SIGHUP, "INT": real_signal.SIGINT, "TERM": real_signal.SIGTERM}[sig]
            self.handlers[int(num)](int(num), None)

    def on_drain_end(self) -> None:
        late = self.tick.get("late")
        if late and not self.late_done:
            self.late_done = True
            self.deliver(late)

    def sleep(self, secs: float) -> None:
        """Tick boundary."""
        self.ops_since_sleep = 0
        self.prepared = True
        self.monitor.on_tick_boundary()
        self.tick_no += 1
        if self.tick_no >= len(self.history):
            raise HistoryEnd()
        self.tick = self.history[self.tick_no]
        self.late_done = False
        if self.queue is not None:
            self.queue.empty_calls = 0
        for slot in self.tick.get("die", ()):
            p = self.manager.workers[slot]
            if p.state in ("alive", "terminating"):
                p.state = "zombie"
                self.trace("dies", p)
                self.monitor.on_death(p)
        sig = self.tick.get("sig")
        if sig:
            self.deliver(sig)
        if self.queue is not None:
            # the sleep lasts a second: whatever was put before or during it has reached the pipe
            self.queue.flush()


def run_history(workers: int, max_fails: int, history: List[Dict[str, Any]], monitor: Any, opts: Optional[Dict[str, Any]] = None) -> Env:
    """Run ProcessManager.start() on a fresh manager against the scripted history. opts: further WorkerArgs
    fields (wait_tasks_timeout, shutdown_timeout, max_tasks_per_child) and 'exit0' (workers that die on
    their own exit with status 0)."""
    import taskiq.cli.worker.process_manager as pm

    env = Env(workers, max_fails, history, monitor, opts)
    saved = {k: getattr(pm, k) for k in ("Process", "Event", "Queue", "current_process", "sleep", "os", "signal")}
    pm.Process = lambda **kw: FakeProcess(env, **kw)  # type: ignore[assignment]
    pm.Event = FakeEvent  # type: ignore[assignment]

    def mkqueue(*a: Any) -> FakeQueue:
        env.queue = FakeQueue(env)
        return env.queue

    pm.Queue = mkqueue  # type: ignore[assignment]
    pm.current_process = lambda: _Main  # type: ignore[assignment]
    pm.sleep = env.sleep  # type: ignore[assignment]
    pm.os = FakeOS(env)  # type: ignore[assignment]
    pm.signal = FakeSignal(env)  # type: ignore[assignment]
    try:
        from taskiq.cli.worker.args import WorkerArgs

        extra = {k: v for k, v in env.opts.items() if k != "exit0"}
        args = WorkerArgs(broker="b:b", modules=[], workers=workers, max_fails=max_fails, **extra)
        mgr = pm.ProcessManager(args, worker_function=lambda args: None)
        env.manager = mgr
        try:
            rv = mgr.start()
            env.returned = ("returned", rv)
            env.trace("return", rv)
            monitor.on_return(rv)
        except HistoryEnd as he:
            env.returned = "running"
            env.restarts = _restarts_from_tb(he.__traceback__)
        except Hang:
            env.returned = "hang"
        except BaseException as exc:  # escaped from start(): a crash of the manager (incl. KeyboardInterrupt)
            env.returned = ("raised", type(exc).__name__)
            env.trace("raised", type(exc).__name__, str(exc))
            monitor.on_raise(exc)
    finally:
        for k, v in saved.items():
            setattr(pm, k, v)
    return env


def _canon_val(v: Any, depth: int = 0) -> Any:
    """Canonical form of a value the manager keeps between ticks (local of start() or attribute)."""
    if v is None or isinstance(v, (bool, int, float, str, bytes)):
        return v
    if isinstance(v, FakeProcess):
        return ("proc", v.name, v.state)
    if depth > 3:
        return type(v).__name__
    if isinstance(v, (set, frozenset)):
        return ("set",) + tuple(sorted((_canon_val(x, depth + 1) for x in v), key=repr))
    if isinstance(v, (list, tuple)):
        return ("seq",) + tuple(_canon_val(x, depth + 1) for x in v)
    if isinstance(v, dict):
        return ("map",) + tuple(sorted(((_canon_val(k, depth + 1), _canon_val(x, depth + 1)) for k, x in v.items()), key=repr))
    if hasattr(v, "worker_num"):
        return (type(v).__name__, getattr(v, "worker_num", None))
    return type(v).__name__


def _restarts_from_tb(tb: Any) -> Any:
    """Every local variable of ProcessManager.start() as it stands at the tick boundary: whatever the
    manager remembers from earlier ticks (the restart counter; any set/flag a change may add) is part
    of the canonical state, so two histories are merged only if the manager itself cannot tell them apart."""
    while tb is not None:
        if tb.tb_frame.f_code.co_name == "start":
            loc = tb.tb_frame.f_locals
            return tuple(sorted((k, _canon_val(v)) for k, v in loc.items() if k != "self"))
        tb = tb.tb_next
    return None


def _manager_attrs(mgr: Any) -> Any:
    skip = {"workers", "action_queue", "args", "worker_function", "observer"}
    return tuple(sorted((k, _canon_val(v)) for k, v in vars(mgr).items() if k not in skip))


def canonical(env: Env) -> Any:
    """Canonical state at a tick boundary (only meaningful while the manager is running)."""
    if env.returned != "running":
        return ("end", env.returned)
    slots = tuple(p.state for p in env.manager.workers)
    q = tuple((type(i).__name__, getattr(i, "worker_num", None), getattr(i, "is_reload_all", None), o) for i, o, _ in env.queue.items)
    return ("run", slots, q, getattr(env, "restarts", None), _manager_attrs(env.manager), env.monitor.state())


def tick_alphabet(workers: int, deviations: bool) -> List[Dict[str, Any]]:
    slots = list(range(workers))
    subsets = [list(c) for r in range(workers + 1) for c in itertools.combinations(slots, r)]
    out = []
    for die in subsets:
        for sig in (None, "HUP", "INT", "TERM", "FILE"):
            for crash in subsets:
                out.append({"die": die, "sig": sig, "crash": crash})
    if deviations:
        dev = []
        for die in subsets:
            for late in ("HUP", "INT", "FILE"):
                for crash in ([], slots[:1]):
                    dev.append({"die": die, "sig": None, "crash": crash, "late": late, "dev": 1})
            for sig in ("HUP", "FILE", "INT"):
                for lag in (0, 1, 2):
                    dev.append({"die": die, "sig": sig, "crash": [], "lag": lag, "dev": 1})
        out += dev
    return out
