"""Shared shard runner for the properties decided on RecvWorld (E1)."""
from __future__ import annotations

import json
import os
from typing import Any, Callable, Dict, List, Optional

from mc.common import Acc, jsonable
from mc.vloop import HarnessError, Livelock, World, apply_step, build, explore


def mark_stateless(scs: List[Dict[str, Any]], k: int, depth: int) -> List[Dict[str, Any]]:
    """Guard (b) of DESIGN 2.1: the k smallest level-0 scenarios are also explored without
    state matching (every path up to `depth` steps) and must reach no fingerprint and no
    violation that the merged search did not reach."""
    cand = sorted((s for s in scs if s.get("level", 0) == 0), key=lambda s: (len(s.get("msgs", [])), len(repr(s))))[:k]
    for s in cand:
        s["stateless"] = depth
    return scs


def replay_history(make_world: Callable[[], World], history: List[Any]) -> World:
    return build(make_world, history)


def run_scenarios(
    prop: str,
    scenarios: List[Dict[str, Any]],
    make_world: Callable[[Dict[str, Any]], World],
    acc: Optional[Acc] = None,
    per_scenario: Optional[Callable[[Dict[str, Any], Any, Acc], None]] = None,
) -> Acc:
    """Explore every scenario; keep violations whose key starts with '<prop>:'.

    Scenario keys used by the driver: level (simultaneity deviations), stateless
    (also run the no-merging search and compare fingerprint sets), max_states.
    """
    acc = acc or Acc()
    prefix = prop + ":"
    for sc in scenarios:
        level = sc.get("level", 0)
        mk = lambda sc=sc: make_world(sc)  # noqa: E731
        # CPU-seconds per scenario; on the unchanged tree the largest quick scenario needs about 35, the largest
        # thorough one about 250 (a change that makes the state space unbounded runs into it)
        default_budget = 120.0 if os.environ.get("MC_TIER", "quick") == "quick" else 900.0
        try:
            res = explore(mk, level=level, max_states=sc.get("max_states", 60000), stop_prefix=prefix,
                          time_budget=sc.get("time_budget", default_budget))
        except Livelock as exc:
            # the code under test kept the event loop busy for thousands of consecutive iterations without
            # waiting for a timer or an external event. For a world whose property fixes *when* things happen
            # (the scheduler loop sleeps to the next minute boundary) that is a violation; elsewhere it stays a
            # harness problem (re-raised, reported with exit status 2)
            if not getattr(make_world, "livelock_is_violation", False):
                raise
            acc.count("scenarios")
            acc.violation("event-loop-never-sleeps", f"the loop under test spins without ever sleeping ({exc}) | scenario=" + json.dumps(jsonable(_brief(sc))),
                          {"scenario": sc, "history": [], "key": prefix + "event-loop-never-sleeps"})
            break  # the property has failed; the other scenarios of this shard would spin the same way
        acc.states += res.states
        acc.transitions += res.transitions
        acc.paths += res.executions
        acc.count("scenarios")
        acc.count(f"scenarios_L{level}")
        acc.count("terminal_states", res.terminals)
        acc.maximum("depth", res.max_depth)
        if res.capped:
            acc.cap(f"state/depth cap hit in scenario {json.dumps(jsonable(sc))[:200]}")
        for o in res.terminal_outcomes:
            acc.outcomes.add(hash(o))
        for key, (msg, hist) in res.violations.items():
            if not key.startswith(prefix):
                continue
            same = _confirm_deterministic(mk, hist, key)
            acc.violation(
                key[len(prefix):],
                msg + ("" if same else " [reproduced on 4 of 4 replays; other events of the run vary between replays]") + " | scenario=" + json.dumps(jsonable(_brief(sc))),
                {"scenario": sc, "history": hist, "key": key},
            )
        if sc.get("stateless"):
            res2 = explore(mk, level=0, merge=False, max_depth=sc["stateless"], max_states=400000)
            acc.paths += res2.executions
            acc.count("stateless_paths", res2.states)
            missing = res2.fingerprints - res.fingerprints
            if missing and level == 0 and not res.capped:
                raise HarnessError(
                    f"stateless search reached {len(missing)} fingerprints the merged search did not: {_brief(sc)}",
                )
            for key, (msg, hist) in res2.violations.items():
                if key.startswith(prefix) and key not in res.violations:
                    raise HarnessError(f"stateless search found {key} that the merged search missed: {_brief(sc)}")
        # determinism tripwire on a passing schedule: replay the deepest explored history twice
        if acc.counters.get("scenarios", 0) % 5 == 1 and res.sample is not None and not res.violations:
            _double_replay(mk, res.sample[0])
            acc.count("double_replays_of_passing_schedules")
        if per_scenario is not None:
            per_scenario(sc, res, acc)
        if acc.counters.get("scenarios", 0) % 7 == 1 and res.sample is not None:
            acc.sample({"scenario": _brief(sc), "states": res.states, "transitions": res.transitions, "terminal_states": res.terminals,
                        "one_explored_schedule": res.sample[0], "its_event_log": res.sample[1]})
    return acc


def _brief(sc: Dict[str, Any]) -> Dict[str, Any]:
    out = {}
    for k, v in sc.items():
        if k == "msgs":
            out[k] = [{kk: vv for kk, vv in m.items() if vv not in (None, [], {}, False)} for m in v]
        else:
            out[k] = v
    return out


def _double_replay(mk: Callable[[], World], hist: List[Any]) -> None:
    obs = []
    for _ in range(2):
        w = mk()
        fps = []
        for step in hist:
            apply_step(w, step)
            w.activate()
            fps.append(w.fingerprint())
        obs.append((tuple(w.log), tuple(fps)))
        w.teardown()
    if obs[0] != obs[1]:
        raise HarnessError(f"two replays of the same passing schedule differ (hidden nondeterminism): {hist!r}")


def _confirm_deterministic(mk: Callable[[], World], hist: List[Any], key: str) -> bool:
    """Replay a violating history: the violation must reproduce on every replay. Normally log and
    fingerprint are identical too; if they are not (the code under test iterates over a set of tasks, say),
    the history is replayed twice more and the violation is kept only if all four replays show it -
    the same schedule fails every time; returns False in that case so that the report says so."""
    obs = []
    for rnd in range(4):
        if rnd == 2 and obs[0] == obs[1]:
            break
        w = mk()
        keys = [k for k, _ in w.violations]
        for step in hist:
            apply_step(w, step)
            keys.extend(k for k, _ in w.violations)
            w.violations.clear()
        w.activate()
        w.check_quiescent()
        if not w.enabled():
            w.check_terminal()
        keys.extend(k for k, _ in w.violations)
        obs.append((tuple(w.log), w.fingerprint(), key in keys))
        w.teardown()
    if not all(o[2] for o in obs):
        raise HarnessError(f"violation {key} did not reproduce on every replay ({[o[2] for o in obs]})")
    return len(obs) == 2


def replay(obj: Dict[str, Any], make_world: Callable[[Dict[str, Any]], World]) -> int:
    sc = obj["scenario"]
    try:
        w = make_world(sc)
        keys = [k for k, _ in w.violations]
        msgs = list(w.violations)
        for step in obj["history"]:
            apply_step(w, step)
            msgs.extend(w.violations)
            w.violations.clear()
    except Livelock as exc:
        print("scenario:", json.dumps(jsonable(_brief(sc))))
        print("oracle:", obj["key"], "- the loop under test spins without ever sleeping:", exc)
        return 1 if obj["key"].endswith("event-loop-never-sleeps") else 0
    w.activate()
    w.check_quiescent()
    if not w.enabled():
        w.check_terminal()
    msgs.extend(w.violations)
    print("scenario:", json.dumps(jsonable(_brief(sc))))
    print("schedule:")
    for s in obj["history"]:
        print("   ", s)
    print("event log:")
    for t, ev in zip(getattr(w, "times", [0] * len(w.log)), w.log):
        print(f"   t={t/1e6:.3f}", ev)
    hit = [m for m in msgs if m[0] == obj["key"]]
    for k, m in msgs:
        print("oracle:", k, "-", m)
    w.teardown()
    return 1 if hit else 0
