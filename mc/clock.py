"""Scripted wall clock for taskiq.cli.scheduler.run (harness-side patch).

The module only uses `datetime.now(tz=...)`, `datetime.now()` and
`datetime.utcnow()`; the replacement class answers all three from one scripted
UTC instant. The local zone of the harness is UTC by convention.
"""
from __future__ import annotations

import datetime as _dt
from typing import Callable, Optional

UTC = _dt.timezone.utc


class _Meta(type(_dt.datetime)):
    pass


class FakeDateTime(_dt.datetime):
    _source: Optional[Callable[[], _dt.datetime]] = None

    @classmethod
    def _utc(cls) -> _dt.datetime:
        assert cls._source is not None, "clock not scripted"
        return cls._source()

    @classmethod
    def now(cls, tz=None):  # type: ignore[override]
        n = cls._utc()
        if tz is None:
            return n.replace(tzinfo=None)
        return n.astimezone(tz)

    @classmethod
    def utcnow(cls):  # type: ignore[override]
        return cls._utc().replace(tzinfo=None)


def install(source: Callable[[], _dt.datetime]) -> None:
    """Patch taskiq.cli.scheduler.run.datetime; `source()` returns aware UTC."""
    import taskiq.cli.scheduler.run as run

    FakeDateTime._source = staticmethod(source)  # type: ignore[assignment]
    run.datetime = FakeDateTime  # type: ignore[attr-defined]


def uninstall() -> None:
    import taskiq.cli.scheduler.run as run

    run.datetime = _dt.datetime  # type: ignore[attr-defined]
    FakeDateTime._source = None
