"""Scripted wall clock for taskiq.cli.scheduler.run (harness-side patch).

The module only uses `datetime.now(tz=...)`, `datetime.now()` and
`datetime.utcnow()`; the replacement class answers all three from one scripted
UTC instant. The local zone of the harness is UTC by convention.
"""
from __future__ import annotations

import datetime as _dt
from typing import Callable, Optional

UTC = _dt.timezone.utc


class _Meta(type(_dt.datetime)):
    pass


LOCAL_OFFSET = _dt.timedelta(0)  # UTC offset of the harness' "local zone" (naive now())


def _local_offset() -> _dt.timedelta:
    from asyncio import events

    loop = events._get_running_loop()
    return getattr(loop, "local_offset", None) or LOCAL_OFFSET


class FakeDateTime(_dt.datetime):
    _source: Optional[Callable[[], _dt.datetime]] = None

    @classmethod
    def _utc(cls) -> _dt.datetime:
        assert cls._source is not None, "clock not scripted"
        return cls._source()

    @classmethod
    def now(cls, tz=None):  # type: ignore[override]
        n = cls._utc()
        if tz is None:
            return (n + _local_offset()).replace(tzinfo=None)
        return n.astimezone(tz)

    @classmethod
    def utcnow(cls):  # type: ignore[override]
        return cls._utc().replace(tzinfo=None)


def install(source: Callable[[], _dt.datetime], local_offset: Optional[_dt.timedelta] = None) -> None:
    """Patch taskiq.cli.scheduler.run.datetime; `source()` returns aware UTC.

    local_offset: what naive datetime.now() is ahead of UTC (the process' local zone)."""
    import taskiq.cli.scheduler.run as run

    global LOCAL_OFFSET
    LOCAL_OFFSET = local_offset or _dt.timedelta(0)

    FakeDateTime._source = staticmethod(source)  # type: ignore[assignment]
    run.datetime = FakeDateTime  # type: ignore[attr-defined]


def uninstall() -> None:
    import taskiq.cli.scheduler.run as run

    global LOCAL_OFFSET
    LOCAL_OFFSET = _dt.timedelta(0)
    run.datetime = _dt.datetime  # type: ignore[attr-defined]
    FakeDateTime._source = None
